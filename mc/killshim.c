/* LD_PRELOAD helper for CRASH: counts write-class system calls that touch
 * files below an armed path prefix and SIGKILLs the process right before the
 * k-th one.  Lets kill points land *inside* SQLite's commit (between two
 * pwrite64 calls to the WAL, before an ftruncate, ...), where the Python
 * level shims cannot reach.
 *
 *   ks_arm(target, prefix)  target < 0: count only
 *   ks_count()              number of counted calls since ks_arm
 *   ks_disarm()
 */
#define _GNU_SOURCE
#include <dlfcn.h>
#include <fcntl.h>
#include <signal.h>
#include <stdarg.h>
#include <stdio.h>
#include <string.h>
#include <sys/types.h>
#include <unistd.h>

static volatile long ks_n = 0;
static volatile long ks_target = -1;
static volatile int ks_on = 0;
static char ks_prefix[512];
static size_t ks_plen = 0;

void ks_arm(long target, const char *prefix) {
    strncpy(ks_prefix, prefix, sizeof(ks_prefix) - 1);
    ks_plen = strlen(ks_prefix);
    ks_n = 0;
    ks_target = target;
    ks_on = 1;
}

long ks_count(void) { return ks_n; }

void ks_disarm(void) { ks_on = 0; }

static void ks_tick(void) {
    if (ks_target >= 0 && ks_n == ks_target) {
        kill(getpid(), SIGKILL);
        for (;;) pause();
    }
    ks_n++;
}

static int path_hit(const char *path) {
    return ks_on && path && ks_plen && strncmp(path, ks_prefix, ks_plen) == 0;
}

static int fd_hit(int fd) {
    char link[64], buf[1024];
    ssize_t n;
    if (!ks_on || fd < 0) return 0;
    snprintf(link, sizeof(link), "/proc/self/fd/%d", fd);
    n = readlink(link, buf, sizeof(buf) - 1);
    if (n <= 0) return 0;
    buf[n] = 0;
    return strncmp(buf, ks_prefix, ks_plen) == 0;
}

#define NEXT(name) \
    static typeof(name) *real = NULL; \
    if (!real) real = dlsym(RTLD_NEXT, #name)

ssize_t write(int fd, const void *b, size_t n) {
    NEXT(write);
    if (fd_hit(fd)) ks_tick();
    return real(fd, b, n);
}

ssize_t pwrite(int fd, const void *b, size_t n, off_t o) {
    NEXT(pwrite);
    if (fd_hit(fd)) ks_tick();
    return real(fd, b, n, o);
}

ssize_t pwrite64(int fd, const void *b, size_t n, off64_t o) {
    NEXT(pwrite64);
    if (fd_hit(fd)) ks_tick();
    return real(fd, b, n, o);
}

int fsync(int fd) {
    NEXT(fsync);
    if (fd_hit(fd)) ks_tick();
    return real(fd);
}

int fdatasync(int fd) {
    NEXT(fdatasync);
    if (fd_hit(fd)) ks_tick();
    return real(fd);
}

int ftruncate(int fd, off_t len) {
    NEXT(ftruncate);
    if (fd_hit(fd)) ks_tick();
    return real(fd, len);
}

int ftruncate64(int fd, off64_t len) {
    NEXT(ftruncate64);
    if (fd_hit(fd)) ks_tick();
    return real(fd, len);
}

int unlink(const char *path) {
    NEXT(unlink);
    if (path_hit(path)) ks_tick();
    return real(path);
}

int rename(const char *a, const char *b) {
    NEXT(rename);
    if (path_hit(a) || path_hit(b)) ks_tick();
    return real(a, b);
}

int mkdir(const char *path, mode_t mode) {
    NEXT(mkdir);
    if (path_hit(path)) ks_tick();
    return real(path, mode);
}

int rmdir(const char *path) {
    NEXT(rmdir);
    if (path_hit(path)) ks_tick();
    return real(path);
}
