"""SEQ: explicit-state breadth-first search over API histories.

A node is the shortest history reaching an abstract state.  Every transition
is executed on the real library (fresh directory, one live object, history
replayed) and compared with the reference model by the World.  States are
deduplicated by the World's canonical form.
"""
import time

from . import run


class Divergence(Exception):
    """Replaying a verified prefix produced a different observation."""


class Hang(BaseException):
    """One operation did not return within the watchdog time."""


WATCHDOG = 30   # seconds of wall time for one operation of the library


def _alarm(signum, frame):
    raise Hang()


def guarded(fn, *args):
    """Run fn(*args); a call that does not come back is reported, not waited
    for (sequential operations take milliseconds)."""
    import signal
    import threading
    if threading.current_thread() is not threading.main_thread():
        return fn(*args)
    old = signal.signal(signal.SIGALRM, _alarm)
    signal.setitimer(signal.ITIMER_REAL, WATCHDOG)
    try:
        return fn(*args)
    finally:
        signal.setitimer(signal.ITIMER_REAL, 0)
        signal.signal(signal.SIGALRM, old)


def bfs(make_world, alphabet, depth, allow=None, max_transitions=None,
        sample_every=997, label=None, time_cap=None, first=None):
    """Explore all histories over ``alphabet`` up to ``depth``.

    make_world() -> World with .apply(op) -> (observation, problems),
    .canon() -> hashable, .close().
    allow(hist, op) -> bool filters the alphabet by history (e.g. tick budget).
    Returns an engine part dict (see run.Report.merge).
    """
    t0 = time.perf_counter()
    part = {'states': 0, 'transitions': 0, 'executions': 0, 'violations': [],
            'outcomes': {}, 'samples': [], 'caps': [], 'fixpoint': False,
            'depth_done': 0}
    w = make_world()
    try:
        seen = {w.canon(): ()}
    finally:
        w.close()
    # keyed by repr: (1,) and (True,) and (1.0,) are equal as dict keys
    obs_of = {repr(()): (0, ())}    # history -> observations (divergence check)
    frontier = [()]
    first_replayed = False
    for level in range(1, depth + 1):
        nxt = []
        for hist in frontier:
            for op in alphabet:
                if first is not None and not hist and op not in first:
                    continue   # this unit owns a slice of the first level
                if allow is not None and not allow(hist, op):
                    continue
                if max_transitions and part['transitions'] >= max_transitions:
                    part['caps'].append('max_transitions=%d at depth %d (%s)'
                                        % (max_transitions, level, label))
                    part['states'] = len(seen)
                    return part
                if time_cap and time.perf_counter() - t0 > time_cap:
                    part['caps'].append('time_cap=%ss at depth %d (%s)'
                                        % (time_cap, level, label))
                    part['states'] = len(seen)
                    return part
                w = make_world()
                try:
                    prefix_obs = []
                    for h in hist:
                        o, problems = w.apply(h)
                        prefix_obs.append(o)
                        if problems:
                            raise Divergence(
                                'prefix %r of %r: %r' % (h, hist, problems))
                    if tuple(map(repr, prefix_obs)) != obs_of[repr(hist)][1]:
                        raise Divergence('history %r replayed differently:\n'
                                         '%r\n%r' % (hist, prefix_obs,
                                                     obs_of[repr(hist)][1]))
                    try:
                        o, problems = guarded(w.apply, op)
                    except Hang:
                        o, problems = None, [(
                            'operation-hangs', '%r did not return within %ds'
                            % (op, WATCHDOG))]
                    part['transitions'] += 1
                    part['executions'] += 1
                    h2 = hist + (op,)
                    okey = '%s:%s' % (op[0], type(o).__name__
                                      if not isinstance(o, run_raises())
                                      else repr(o))
                    part['outcomes'][okey] = part['outcomes'].get(okey, 0) + 1
                    if problems:
                        part['violations'].append(w.violation(h2, problems))
                        continue
                    if part['transitions'] % sample_every == 1 \
                            and len(part['samples']) < 4:
                        part['samples'].append(
                            {'history': [list(x) for x in h2],
                             'last_result': repr(o)[:120]})
                    c = w.canon()
                    if c not in seen:
                        seen[c] = h2
                        obs_of[repr(h2)] = (len(h2),
                                           tuple(map(repr, prefix_obs + [o])))
                        nxt.append(h2)
                        if not first_replayed:
                            # proof obligation (a): replay one execution and
                            # require an identical observation log
                            first_replayed = True
                            w2 = make_world()
                            try:
                                again = [w2.apply(h)[0] for h in h2]
                                if tuple(map(repr, again)) != obs_of[repr(h2)][1]:
                                    raise Divergence(
                                        'replay of %r differs' % (h2,))
                                if w2.canon() != c:
                                    raise Divergence(
                                        'replay of %r reaches another state'
                                        % (h2,))
                            finally:
                                w2.close()
                finally:
                    w.close()
        part['depth_done'] = level
        frontier = nxt
        for h in list(obs_of):
            if obs_of[h] and obs_of[h][0] < level:
                del obs_of[h]
        if not frontier:
            part['fixpoint'] = True
            break
    part['states'] = len(seen)
    return part


def run_raises():
    from .spec import Raises
    return Raises
