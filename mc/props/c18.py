"""C18 - data and settings persist and are shared by every handle on the
directory.

(a) SEQ: BFS over histories in which handle events (close+reopen without
    arguments, second handle, pickle round trip, operation in a forked
    child, operation in another thread) are interleaved with data
    operations, for Cache and FanoutCache; data and the creation-time
    settings must be what the reference says through whatever handle is
    current.
(b) GRID: every creation-time setting value -> reopen without arguments ->
    identical settings and contents (Cache, FanoutCache, pickled objects,
    JSONDisk with compress levels).
(c) Format: golden/v5.6.3 (written once by the pinned commit): every item of
    every directory is read through every accessor, keys list identically,
    every fanout key is found and lives in the recorded shard, a handle
    opened while another connection holds a lock keeps the stored settings.
"""
import base64
import json
import os
import pickle
import shutil
import threading

from .. import run, seq
from ..alpha import Snapshot
from ..env import ENV, T0, real_connect
from ..spec import Raises, same
from ..worlds import CacheWorld, call, impl_op, normalize
from . import c03
from .c13 import FanoutWorld

TECHNIQUE = ('explicit-state BFS over histories with handle events (reopen, '
             'second handle, pickle, fork, thread) against the reference '
             'model + bounded-exhaustive settings grid + replay of a golden '
             'directory written by the pinned release')

GOLD = os.path.join(run.VERIF, 'golden', 'v5.6.3')
BIG = ('$T', 12)
SETTING_KEYS = ('statistics', 'tag_index', 'eviction_policy', 'size_limit',
                'cull_limit', 'disk_min_file_size', 'disk_pickle_protocol')


def in_fork(fn):
    """Run fn() in a forked child; return its normalised result."""
    r, w = os.pipe()
    pid = os.fork()
    if pid == 0:
        code = 0
        try:
            os.close(r)
            out = call(fn)
            data = pickle.dumps(out)
            os.write(w, data)
        except BaseException:
            code = 3
        finally:
            os._exit(code)
    os.close(w)
    # the child drew value-file names from its own copy of the counter
    for cid in list(ENV.names):
        ENV.names[cid] += 8
    ENV.names.setdefault(0, 8)
    data = b''
    while True:
        chunk = os.read(r, 65536)
        if not chunk:
            break
        data += chunk
    os.close(r)
    _, status = os.waitpid(pid, 0)
    if status != 0 or not data:
        return Raises('ChildFailed')
    return pickle.loads(data)


def in_thread(fn):
    box = {}

    def body():
        box['r'] = call(fn)
    t = threading.Thread(target=body)
    t.start()
    t.join()
    return box.get('r', Raises('ThreadFailed'))


class HandleMixin:
    """Adds handle events to a World whose live object is ``self.cache``."""

    def reopen_args(self):
        return {}

    def handle_event(self, op):
        name = op[0]
        cls = type(self.cache)
        if name == 'reopen':
            self.cache.close()
            self.cache = cls(self.dir, **self.reopen_args())
        elif name == 'second':
            self.extra = getattr(self, 'extra', [])
            self.extra.append(self.cache)          # stays open
            self.cache = cls(self.dir, **self.reopen_args())
        elif name == 'pickle':
            self.cache = pickle.loads(pickle.dumps(self.cache))
        elif name == 'closeuse':
            self.cache.close()                     # reopens transparently
        else:
            raise ValueError(op)

    def settings_problems(self):
        want = self.expected_settings()
        got = {k: getattr(self.cache, k) for k in want}
        if got != want:
            diff = {k: (got[k], want[k]) for k in want if got[k] != want[k]}
            return [('settings', 'settings seen through the current handle '
                     'differ from creation (got, want): %r' % (diff,))]
        return []

    def apply(self, op):
        if op[0] in ('reopen', 'second', 'pickle', 'closeuse'):
            self.handle_event(op)
            self.snap = None
            return None, self.settings_problems()
        if op[0] in ('fork', 'thread'):
            inner = op[1]
            runner = in_fork if op[0] == 'fork' else in_thread
            real_impl = self.impl

            def via(o):
                return runner(lambda: real_impl(o))
            self.impl = via
            try:
                got, problems = super().apply(inner)
            finally:
                self.impl = real_impl
            return got, problems + self.settings_problems()
        got, problems = super().apply(op)
        return got, problems

    def close(self):
        for h in getattr(self, 'extra', []):
            try:
                h.close()
            except Exception:
                pass
        super().close()


class CacheHandles(HandleMixin, CacheWorld):
    def expected_settings(self):
        import diskcache
        want = dict(diskcache.DEFAULT_SETTINGS)
        want.update(self.settings)
        out = {k: want[k] for k in SETTING_KEYS}
        out['statistics'] = int(self.spec.statistics)
        return out

    def canon(self):
        snap = Snapshot(self.dir)
        self.snap = snap
        return (CacheWorld.canon(self), len(getattr(self, 'extra', [])))

    def signature(self, hist, problems):
        return {'world': 'CacheHandles',
                'events': '+'.join(sorted({h[0] for h in hist if h[0] in (
                    'reopen', 'second', 'pickle', 'fork', 'thread',
                    'closeuse')}))}


class FanoutHandles(HandleMixin, FanoutWorld):
    def reopen_args(self):
        return {'shards': self.shards}

    def expected_settings(self):
        import diskcache
        want = dict(diskcache.DEFAULT_SETTINGS)
        want.update(self.settings)
        out = {k: want[k] for k in SETTING_KEYS}
        out['size_limit'] = want['size_limit'] / self.shards
        out['statistics'] = int(self.spec.statistics)
        return out

    def handle_event(self, op):
        if op[0] == 'pickle':
            self.cache = pickle.loads(pickle.dumps(self.cache))
            return
        super().handle_event(op)

    def canon(self):
        self._snaps = None
        return (FanoutWorld.canon(self), len(getattr(self, 'extra', [])))

    def signature(self, hist, problems):
        return {'world': 'FanoutHandles', 'size_limit_given':
                'size_limit' in self.settings,
                'events': '+'.join(sorted({h[0] for h in hist if h[0] in (
                    'reopen', 'second', 'pickle', 'fork', 'thread',
                    'closeuse')}))}


def alphabet():
    data = [('set', 'a', 1, None, 't'), ('set', 'a', BIG, 5, None),
            ('set', (1, 'k'), ('$P', 12), None, None), ('get', 'a', 6),
            ('get', (1, 'k'), 0), ('incr', 'n', 1, 0), ('delete', 'a'),
            ('pop', 'a', 0), ('stats', True, False), ('len',), ('keys',)]
    events = [('reopen',), ('second',), ('pickle',), ('closeuse',)]
    events += [('fork', ('set', 'a', BIG, None, None)), ('fork', ('get', 'a', 0)),
               ('fork', ('incr', 'n', 1, 0)),
               ('thread', ('set', 'a', 2, None, None)),
               ('thread', ('get', 'a', 0)), ('thread', ('pop', 'a', 0))]
    return data + events


CONFIGS = [
    {'disk_min_file_size': 8},
    {'disk_min_file_size': 8, 'statistics': 1,
     'eviction_policy': 'least-recently-used', 'cull_limit': 3,
     'size_limit': 10 ** 6, 'tag_index': 1, 'disk_pickle_protocol': 2},
    {'eviction_policy': 'none', 'size_limit': 5000},
]


def grid_unit(unit):
    """Creation-time settings survive reopen without arguments / pickling."""
    import diskcache as dc
    part = {'states': 0, 'transitions': 0, 'executions': 0, 'violations': [],
            'outcomes': {}, 'samples': [], 'caps': [], 'label': 'grid/settings'}
    values = {
        'statistics': [0, 1], 'tag_index': [0, 1],
        'eviction_policy': ['least-recently-stored', 'least-recently-used',
                            'least-frequently-used', 'none'],
        'size_limit': [1000, 2 ** 20], 'cull_limit': [0, 3],
        'disk_min_file_size': [0, 8, 2 ** 15],
        'disk_pickle_protocol': [0, 2, 5],
    }
    items = [('s', 'v'), (1, b'bytes' * 4), ((1, 'k'), ('p' * 20, 2)),
             (b'b', 2.5), (None, None)]
    cases = [{}]
    for k, vs in values.items():
        for v in vs:
            cases.append({k: v})
    cases.append({'statistics': 1, 'tag_index': 1, 'cull_limit': 0,
                  'eviction_policy': 'none', 'size_limit': 12345,
                  'disk_min_file_size': 8, 'disk_pickle_protocol': 2})

    def bad(kind, st, how, msg):
        part['violations'].append({
            'signature': {'clause': 'settings-lost', 'kind': kind, 'how': how,
                          'size_limit_given': 'size_limit' in st},
            'message': 'settings-lost: %s created with %r, %s: %s'
                       % (kind, st, how, msg),
            'replay': {'engine': 'GRID', 'module': 'props.c18',
                       'kind': kind, 'settings': st, 'how': how}})

    for st in cases:
        for kind in ('cache', 'fanout', 'json'):
            path = run.fresh_dir('p')
            ENV.reset(run.scratch())
            want = dict(dc.DEFAULT_SETTINGS)
            want.update(st)
            want = {k: want[k] for k in SETTING_KEYS}
            if kind == 'cache':
                obj = dc.Cache(path, **st)
                reopen = lambda: dc.Cache(path)                 # noqa: E731
            elif kind == 'json':
                if 'disk_pickle_protocol' in st:
                    continue
                obj = dc.Cache(path, disk=dc.JSONDisk,
                               disk_compress_level=9, **st)
                reopen = lambda: dc.Cache(path, disk=dc.JSONDisk)  # noqa
                want['disk_compress_level'] = 9
            else:
                obj = dc.FanoutCache(path, shards=3, **st)
                reopen = lambda: dc.FanoutCache(path, shards=3)  # noqa: E731
                want['size_limit'] = want['size_limit'] / 3
            its = items if kind != 'json' else [('s', 'v'), ('l', [1, 2]),
                                               ('big', 'j' * 40)]
            for k, v in its:
                obj.set(k, v, tag='t')
            obj.close()
            for how, opener in (('reopen without arguments', reopen),
                                ('pickle round trip',
                                 lambda: pickle.loads(pickle.dumps(obj)))):
                h = opener()
                part['transitions'] += 1
                part['executions'] += 1
                try:
                    got = {k: getattr(h, k, 'ATTRIBUTE-MISSING') for k in want}
                    if got != want:
                        diff = {k: (got[k], want[k]) for k in want
                                if got[k] != want[k]}
                        bad(kind, st, how, 'settings (got, want) %r' % (diff,))
                    for k, v in its:
                        r = call(h.get, k, 'MISSING', tag=True)
                        if not same(r, (v, 't')):
                            bad(kind, st, how, 'get(%r) -> %r, stored %r'
                                % (k, r, (v, 't')))
                    if sorted(map(repr, h)) != sorted(repr(k) for k, _ in its):
                        bad(kind, st, how, 'keys %r' % (list(h),))
                finally:
                    h.close()
            part['states'] += 1
            run.drop(path)
    # settings changed through two handles in turn: the last reset wins for
    # every handle (after it reloads), for a new handle and for an unpickled
    # one - also when a handle writes back the value it still remembers
    for kind in ('cache', 'fanout'):
        for key, first, second in (('cull_limit', 0, 7), ('size_limit', 3000,
                                                           6000),
                                   ('statistics', 0, 1),
                                   ('eviction_policy', 'none',
                                    'least-recently-used')):
            if kind == 'fanout' and key == 'size_limit':
                continue   # reopening a FanoutCache re-divides the default
                           # total: recorded finding F-C18-fanout-size-limit
            path = run.fresh_dir('p')
            ENV.reset(run.scratch())
            mk = (lambda **kw: dc.Cache(path, **kw)) if kind == 'cache' else \
                (lambda **kw: dc.FanoutCache(path, shards=3, **kw))
            a = mk(**{key: first})
            b = mk()
            try:
                scale = 3 if kind == 'fanout' and key == 'size_limit' else 1
                for who, value in ((b, second), (a, first), (b, second),
                                   (a, first)):
                    call(who.reset, key, value / scale
                         if scale != 1 else value)
                part['transitions'] += 1
                part['executions'] += 1
                want = first / scale if scale != 1 else first
                c = mk()
                seen = {'handle B after reload': call(b.reset, key),
                        'new handle': getattr(c, key),
                        'unpickled copy of A':
                            getattr(pickle.loads(pickle.dumps(a)), key),
                        'handle A': getattr(a, key)}
                c.close()
                wrong = {k: v for k, v in seen.items() if v != want}
                if wrong:
                    part['violations'].append({
                        'signature': {'clause': 'settings-lost', 'kind': kind,
                                      'how': 'two handles reset in turn',
                                      'size_limit_given': False},
                        'message': 'settings-lost: %s: handles A and B set %s '
                                   'to %r and %r in turn, A last; %r expected '
                                   'everywhere but %r' % (kind, key, first,
                                                          second, want, wrong),
                        'replay': {'engine': 'GRID', 'module': 'props.c18',
                                   'kind': kind, 'settings': {key: first},
                                   'how': 'two handles reset in turn'}})
            finally:
                a.close()
                b.close()
                run.drop(path)
    return part


def dec(s):
    return pickle.loads(base64.b64decode(s))


def golden_unit(unit):
    import diskcache as dc
    part = {'states': 0, 'transitions': 0, 'executions': 0, 'violations': [],
            'outcomes': {}, 'samples': [], 'caps': [], 'label': 'golden'}
    man = json.load(open(os.path.join(GOLD, 'manifest.json')))
    root = run.fresh_dir('gold')
    shutil.copytree(GOLD, root)
    ENV.reset(run.scratch())
    ENV.now = 1.7e9       # "today": the stored far-future expiry still holds

    def bad(where, msg):
        part['violations'].append({
            'signature': {'clause': 'released-format-unreadable',
                          'where': where},
            'message': 'released-format-unreadable: %s: %s' % (where, msg),
            'replay': {'engine': 'GRID', 'module': 'props.c18',
                       'kind': 'golden', 'where': where}})

    def t():
        part['transitions'] += 1
        part['executions'] += 1

    # Cache: every accessor
    c = dc.Cache(os.path.join(root, 'cache'))
    try:
        for name, want in man['cache_settings'].items():
            if getattr(c, name) != want:
                bad('cache settings', '%s is %r, stored %r'
                    % (name, getattr(c, name), want))
        pairs = [(dec(k), dec(v)) for k, v in man['cache']]
        queue = [(dec(k), dec(v)) for k, v in man['queue']]
        part['states'] += len(pairs) + len(queue)
        listed = list(c)
        if sorted(map(repr, listed)) != sorted(
                repr(k) for k, _ in pairs + queue):
            bad('cache iteration', 'keys differ: %r' % (listed[:6],))
        if list(c.iterkeys()) != list(reversed(list(c.iterkeys(reverse=True)))):
            bad('cache iterkeys', 'forward and reverse order disagree')
        for k, v in pairs:
            t()
            for acc, fn in (('get', lambda: c.get(k, 'MISSING')),
                            ('getitem', lambda: c[k]),
                            ('contains', lambda: (k in c) and v),
                            ('read', lambda: normalize(c.get(k, read=True)))):
                got = call(fn)
                if acc == 'read' and isinstance(got, tuple) \
                        and got[:1] == ('handle',):
                    got = got[1]
                if not same(got, v):
                    bad('cache %s' % acc, 'key %r -> %r, stored %r'
                        % (k, got, v))
        if not same(c.peek('q'), queue[0]) or \
                not same(c.peek('q', side='back'), queue[-1]):
            bad('queue peek', '%r / %r' % (c.peek('q'), c.peek('q', side='back')))
        for k, v in queue:
            t()
            got = c.pull('q')
            if not same(got, (k, v)):
                bad('queue pull', '%r, stored %r' % (got, (k, v)))
        for k, v in pairs[:10]:
            got = call(c.pop, k, 'MISSING')
            if not same(got, v):
                bad('cache pop', 'key %r -> %r, stored %r' % (k, got, v))
        warns = [str(w.message) for w in c.check()]
        if warns:
            bad('cache check', repr(warns[:3]))
    finally:
        c.close()
    # FanoutCache: found, and in the recorded shard
    f = dc.FanoutCache(os.path.join(root, 'fanout'), shards=2)
    try:
        for k, v, shard in man['fanout']:
            k, v = dec(k), dec(v)
            t()
            part['states'] += 1
            got = call(f.get, k, 'MISSING')
            if not same(got, v):
                bad('fanout get', 'key %r -> %r, stored %r' % (k, got, v))
            if f._hash(k) % 2 != shard:
                bad('fanout routing', 'key %r routes to shard %d, released '
                    'version stored it in %d' % (k, f._hash(k) % 2, shard))
            if k not in f:
                bad('fanout contains', 'key %r not found' % (k,))
        if len(f) != len(man['fanout']):
            bad('fanout len', '%d vs %d' % (len(f), len(man['fanout'])))
    finally:
        f.close()
    d = dc.Deque(directory=os.path.join(root, 'deque'))
    try:
        t()
        want = [dec(x) for x in man['deque']]
        if not same(list(d), want) or not same(d[0], want[0]) or \
                not same(d.peek(), want[-1]):
            bad('deque', '%r, stored %r' % (list(d), want))
    finally:
        d.cache.close()
    ix = dc.Index(os.path.join(root, 'index'))
    try:
        t()
        want = [(dec(k), dec(v)) for k, v in man['index']]
        if not same(list(ix.items()), want):
            bad('index', '%r, stored %r' % (list(ix.items())[:4], want[:4]))
    finally:
        ix.cache.close()
    j = dc.Cache(os.path.join(root, 'json'), disk=dc.JSONDisk)
    try:
        for k, v in man['json']:
            k, v = dec(k), dec(v)
            t()
            got = call(j.get, k, 'MISSING')
            if not same(got, v):
                bad('jsondisk', 'key %r -> %r, stored %r' % (k, got, v))
        if sorted(map(repr, j)) != sorted(repr(dec(k)) for k, _ in man['json']):
            bad('jsondisk iteration', repr(list(j)))
    finally:
        j.close()
    # opening a handle while another connection blocks readers keeps settings
    for mode in ('delete',):
        path = run.fresh_dir('lk')
        c0 = dc.Cache(path, eviction_policy='none', cull_limit=0,
                      sqlite_journal_mode=mode, disk_pickle_protocol=2)
        c0[(1, 'k')] = 'v'
        c0.close()
        other = real_connect(os.path.join(path, 'cache.db'), timeout=0,
                             isolation_level=None)
        other.execute('BEGIN EXCLUSIVE')
        state = {'n': 0}

        class Release:
            def sleep(self, seconds):
                state['n'] += 1
                if state['n'] == 3 and other.in_transaction:
                    other.execute('ROLLBACK')
                if state['n'] > 500:
                    raise RuntimeError('never released')

            def before(self, kind, info):
                pass

            def after(self, kind, info, exc):
                pass

        ENV.hook = Release()
        try:
            try:
                h = dc.Cache(path)
            except Exception as exc:
                h = Raises(type(exc).__name__)
        finally:
            ENV.hook = None
            if other.in_transaction:
                other.execute('ROLLBACK')
            other.close()
        t()
        if isinstance(h, Raises):
            bad('open under lock', 'opening raised %r' % (h,))
        else:
            try:
                if (h.eviction_policy, h.cull_limit, h.disk_pickle_protocol) \
                        != ('none', 0, 2) or h.get((1, 'k')) != 'v':
                    bad('open under lock', 'settings %r, item %r' % (
                        (h.eviction_policy, h.cull_limit,
                         h.disk_pickle_protocol), h.get((1, 'k'))))
            finally:
                h.close()
        run.drop(path)
    # JSONDisk keys as the pinned commit stored them (golden/json_keys.json,
    # incl. dict keys in non-sorted insertion order): a row written under the
    # released encoding is found, listed and removable through the same key
    import json as _json
    import sqlite3 as _sqlite3
    recorded = _json.load(open(os.path.join(run.VERIF, 'golden',
                                            'json_keys.json')))['keys']
    for level in sorted({r['level'] for r in recorded}):
        path = run.fresh_dir('gj')
        ENV.reset(run.scratch())
        h = dc.Cache(path, disk=dc.JSONDisk, disk_compress_level=level)
        rows = [r for r in recorded if r['level'] == level]
        try:
            h.set('seed', 0)
            for i, r in enumerate(rows):
                h.set('placeholder-%d' % i, i)
            h.close()
            # re-key the placeholder rows with the recorded key bytes
            con = _sqlite3.connect(os.path.join(path, 'cache.db'))
            for i, r in enumerate(rows):
                con.execute('UPDATE Cache SET key = ?, raw = ? WHERE rowid = ?',
                            (bytes.fromhex(r['stored']), int(r['raw']), i + 2))
            con.commit()
            con.close()
            h = dc.Cache(path, disk=dc.JSONDisk)
            for i, r in enumerate(rows):
                t()
                key = r['key']
                got = (call(h.get, key, 'MISSING'), call(h.__contains__, key))
                if got != (i, True):
                    bad('json key encoding', 'JSONDisk level %d: the row '
                        'stored by the released version under key %r is not '
                        'found: (get, in) = %r' % (level, key, got))
            listed = call(lambda: sorted(_json.dumps(k) for k in h))
            want = sorted([_json.dumps(r['key']) for r in rows]
                          + [_json.dumps('seed')])
            if listed != want:
                bad('json key encoding', 'iteration lists %r, stored %r'
                    % (listed, want))
            for r in rows:
                t()
                if call(h.delete, r['key']) is not True:
                    bad('json key encoding', 'delete(%r) did not find the '
                        'released-format row' % (r['key'],))
                    break
        finally:
            try:
                h.close()
            except Exception:
                pass
            run.drop(path)
    # opening, unpickling or copying a bounded Deque never removes items that
    # another (unbounded) handle put into the directory
    for how in ('open', 'pickle', 'fanout', 'copy'):
        path = run.fresh_dir('gd')
        ENV.reset(run.scratch())
        owner = None
        try:
            if how == 'fanout':
                owner = dc.FanoutCache(path, shards=2)
                a = owner.deque('q', maxlen=3)
            else:
                a = dc.Deque([1, 2, 3], directory=path, maxlen=3)
            if how == 'fanout':
                a.extend([1, 2, 3])
            b = dc.Deque(directory=a.directory)
            b.appendleft(0)
            b.appendleft(-1)
            want = [-1, 0, 1, 2, 3]
            if how == 'open':
                c = dc.Deque(directory=a.directory, maxlen=3)
            elif how == 'pickle':
                c = pickle.loads(pickle.dumps(a))
            elif how == 'fanout':
                c = owner.deque('q', maxlen=2)
            else:
                c = a.copy()
            t()
            seen = (list(b), list(dc.Deque(directory=a.directory)))
            if seen != (want, want):
                bad('bounded deque handle', 'creating a bounded handle (%s) '
                    'on a directory holding %r left %r' % (how, want, seen[1]))
            if how == 'copy' and c.directory != a.directory:
                shutil.rmtree(c.directory, ignore_errors=True)
        finally:
            if owner is not None:
                owner.close()
            run.drop(path)
    part['samples'].append({'golden_items': part['states']})
    run.drop(root)
    return part


def open_unit(unit):
    """A handle is being opened (every statement of __init__ is a
    scheduling point) while another client commits writes: afterwards every
    handle must still see consistent contents and bookkeeping."""
    from .. import sched
    from ..scen import CacheScenario
    from . import c05
    _, programs, init, cap, bound = unit
    part = sched.explore(
        lambda: CacheScenario(programs, c05.INITS[init], 'own',
                              {'disk_min_file_size': 8}),
        bound=bound, por=True, time_cap=cap)
    part['label'] = 'sched/open'
    return part


def work(unit):
    kind = unit[0]
    if kind == 'open':
        return open_unit(unit)
    if kind == 'grid':
        return grid_unit(unit)
    if kind == 'golden':
        return golden_unit(unit)
    _, target, settings, depth, seed, cap, chunk, nch = unit
    ab = run.shuffled(alphabet(), seed, 'h')
    if target == 'cache':
        make = lambda: CacheHandles(settings)              # noqa: E731
    else:
        ab = [op for op in ab if op[0] not in ('keys',)
              and not (op[0] in ('fork', 'thread') and op[1][0] == 'keys')]
        make = lambda: FanoutHandles(settings, 2)          # noqa: E731
    part = seq.bfs(make, ab, depth, label=target, time_cap=cap,
                   first=ab[chunk::nch])
    part['label'] = 'bfs/%s' % target
    return part


def main(tier, seed):
    rep = run.Report('C18', tier, seed, TECHNIQUE)
    cap = 200 if tier == 'quick' else 3000
    depth = 3 if tier == 'quick' else 4
    units = [('grid',), ('golden',)]
    for st in CONFIGS:
        for ch in range(3):
            units.append(('bfs', 'cache', st, depth, seed, cap, ch, 3))
    for st in CONFIGS[:2]:
        for ch in range(3):
            units.append(('bfs', 'fanout', st, depth, seed, cap, ch, 3))
    for w in (('set', 'c', BIG, None, None), ('delete', 'a'),
              ('incr', 'n', 1, 0), ('pop', 'a', 0)):
        b = 1 if tier == 'quick' else 2
        units.append(('open', [[('open',)], [w]], 'file', cap, b))
        units.append(('open', [[('open',), ('len',)], [w, ('len',)]], 'two',
                      cap, b))
    units = run.shuffled(units, seed)
    for part in run.pmap(work, units):
        rep.merge(part, part.get('label'))
    rep.bounds = {
        'open': 'a handle being constructed against each of 4 writes by '
                'another client, all schedules with <= 1 (quick) / 2 '
                '(thorough) preemptions',
        'bfs': 'depth %d over %d operations (11 data operations + reopen, '
               'second handle, pickle, close-then-use, 3 forked and 3 '
               'threaded operations) x %d setting sets, Cache and '
               'FanoutCache(2)' % (depth, len(alphabet()), len(CONFIGS)),
        'grid': 'each value of each creation-time setting alone + one '
                'combination, x Cache / FanoutCache(3) / JSONDisk, reopened '
                'without arguments and unpickled',
        'golden': 'golden/v5.6.3 written by the pinned commit: Cache (every '
                  'key and value representation, queue), FanoutCache(2), '
                  'Deque, Index, JSONDisk',
    }
    rep.assumptions = [
        'the Disk class is an argument, not a stored setting: reopening a '
        'JSONDisk cache passes disk=JSONDisk again',
        'Deque/Index/DjangoCache reopen and pickle events are explored under '
        'C11/C12/C19',
    ]
    return run.finish(rep)
