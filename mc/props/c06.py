"""C06 - transaction blocks are all-or-nothing, isolated, nestable and
thread-owned.

(a) GRID/FAULT: every block body of length <= 2 (quick) / 3 (thorough) over
    {set inline, set FILE, delete, pop, incr, add, push, pull, nested block
    that raises and is caught}, from three initial states, with a raise
    after every prefix and a failure injected at every database statement /
    file operation inside the block, for Cache.transact; fixed bodies for
    Deque.transact, Index.transact and FanoutCache.transact.
(b) SCHED: a block over two keys against a reader, a writer or a second
    block user (own and shared Cache objects; two FanoutCache.transact
    users): every interleaving must be linearizable with the block as ONE
    composite operation; nobody deadlocks."""
import itertools
import shutil
import warnings

from .. import run, sched
from ..alpha import Snapshot, tree
from ..env import ENV
from ..fault import FaultHook
from ..lin import Op, linearize
from ..scen import CacheScenario, ObjScenario
from ..spec import Raises, SpecCache, same
from ..worlds import (BlockAbort, CacheWorld, call, impl_op, model_op,
                      template, val)
from . import c05

TECHNIQUE = ('bounded-exhaustive enumeration of block bodies x raise points x '
             'injected failure positions against an unchanged-state oracle + '
             'stateless exploration of all interleavings with blocks as '
             'composite operations')

BIG = ('$T', 12)
BIGB = ('$B', 13)
MFS = {'disk_min_file_size': 8}

ELEMENTS = [
    ('set', 'a', 1, None, None), ('set', 'a', BIG, 5, 't'),
    ('set', 'b', BIGB, None, None), ('delete', 'a'), ('pop', 'a', 0),
    ('incr', 'n', 1, 0), ('add', 'a', BIGB, None, None),
    ('push', BIG, None, 'back', None, None), ('pull', None, 'front', 0),
    ('touch', 'a', 9),
    ('nested', (('set', 'a', BIGB, None, None), ('delete', 'b'))),
]
INITS = {
    'absent': [],
    'inline': [('set', 'a', 7, None, 'x'), ('set', 'b', 1, None, None),
               ('push', 0, None, 'back', None, None)],
    'file': [('set', 'a', ('$T', 13), 3, 'x'), ('set', 'b', ('$B', 14), None, None),
             ('push', ('$T', 15), None, 'back', None, None)],
}


def full_state(directory):
    # empty directories are harmless debris: compare rows and value files
    snap = Snapshot(directory)
    canon = snap.canon()[:3]
    return (canon, tuple(t for t in tree(directory) if t[0] == 'f'))


def lib_check(cache):
    import diskcache
    with warnings.catch_warnings():
        warnings.simplefilter('always')
        try:
            warns = cache.check()
        except Exception as exc:
            return ['raised %r' % (exc,)]
    return [str(w.message) for w in warns
            if not issubclass(w.category, diskcache.EmptyDirWarning)]


def timed_out_write(w):
    """Make one write of this client give up with Timeout (another
    connection holds the write lock), as history before the block."""
    import os
    from ..env import real_connect
    import diskcache
    other = real_connect(os.path.join(w.dir, 'cache.db'), timeout=0,
                         isolation_level=None)
    try:
        other.execute('BEGIN IMMEDIATE')
        try:
            w.cache.set('zz-blocked', 1)
        except diskcache.Timeout:
            pass
        else:
            raise RuntimeError('write did not time out under a held lock')
        other.execute('ROLLBACK')
    finally:
        other.close()


def body_unit(unit):
    _, init, bodies, inject = unit[:4]
    pre_step = unit[4] if len(unit) > 4 else None
    part = {'states': 0, 'transitions': 0, 'executions': 0, 'violations': [],
            'outcomes': {}, 'samples': [], 'caps': [], 'label': 'grid/cache'}

    def bad(clause, body, where, msg):
        part['violations'].append({
            'signature': {'clause': clause, 'target': 'cache',
                          'ops': '+'.join(sorted({b[0] for b in body}))},
            'message': '%s: block %r from state %s%s, %s: %s'
                       % (clause, body, init,
                          ' after a write of this client timed out'
                          if pre_step else '', where, msg),
            'replay': {'engine': 'GRID', 'module': 'props.c06',
                       'init': init, 'body': [list(b) for b in body],
                       'where': where, 'pre_step': pre_step}})

    for body in bodies:
        part['states'] += 1
        # committed + raise after every prefix
        for k in [None] + list(range(len(body) + 1)) + (
                ['hard'] if len(body) == 1 else []):
            hard = k == 'hard'
            if hard:
                k = len(body)
            w = CacheWorld(MFS)
            try:
                for o in INITS[init]:
                    w.apply_fast(o)
                if pre_step == 'timeout':
                    timed_out_write(w)
                pre = full_state(w.dir)
                pre_rows = Snapshot(w.dir).contents()
                op = ('block', tuple(body), k) + (('hard',) if hard else ())
                got, problems = w.apply(op)
                part['transitions'] += 1
                part['executions'] += 1
                key = 'commit' if k is None else 'abort'
                part['outcomes'][key] = part['outcomes'].get(key, 0) + 1
                if k is not None:
                    if got != Raises('BlockAbort'):
                        bad('abort-swallowed', body, 'raise after %d' % k,
                            'block returned %r' % (got,))
                    post = full_state(w.dir)
                    if post != pre:
                        rows = Snapshot(w.dir).contents()
                        bad('abort-not-rolled-back', body,
                            'raise after %d' % k,
                            'contents before %r, after %r%s'
                            % (pre_rows, rows, '' if rows != pre_rows else
                               ' (same rows; files or row metadata differ: '
                               '%r vs %r)' % (pre[1], post[1])))
                    extra = lib_check(w.cache)
                    if extra:
                        bad('abort-inconsistent', body, 'raise after %d' % k,
                            'check() reports %r' % (extra[:3],))
                    # a later, unrelated committed write must not disturb what
                    # the rollback restored
                    w.cache.set('zz-later', 1)
                    w.cache.delete('zz-later')
                    later = full_state(w.dir)
                    if later != pre and post == pre:
                        bad('abort-damage-surfaces-later', body,
                            'raise after %d' % k,
                            'after a later committed write the restored '
                            'contents changed: %r -> %r'
                            % (pre_rows, Snapshot(w.dir).contents()))
                elif problems:
                    bad('commit-wrong', body, 'commit',
                        '; '.join(p[1] for p in problems)[:400])
            finally:
                w.close()
        if not inject:
            continue
        # failure injected at every event inside the committing block
        w = CacheWorld(MFS)
        try:
            for o in INITS[init]:
                w.apply_fast(o)
            hook = FaultHook(None)
            ENV.hook = hook
            impl_op(w.cache, ('block', tuple(body), None))
            ENV.hook = None
            n = len(hook.log)
            log = hook.log
        finally:
            ENV.hook = None
            w.close()
        for i in range(1, n):
            if log[i][0] == 'sql' and log[i][1].startswith(
                    ('COMMIT', 'ROLLBACK')):
                continue
            if log[i][0] in ('remove', 'rmdir'):
                continue      # post-commit cleanup: the block is committed
            w = CacheWorld(MFS)
            try:
                for o in INITS[init]:
                    w.apply_fast(o)
                pre = full_state(w.dir)
                pre_rows = Snapshot(w.dir).contents()
                hook = FaultHook((i, 'fail'))
                ENV.hook = hook

                def run_block():
                    with w.cache.transact():
                        for b in body:
                            r = impl_op_raising(w.cache, b)
                try:
                    outcome = call(run_block)
                finally:
                    hook.enabled = False
                    ENV.hook = None
                part['transitions'] += 1
                part['executions'] += 1
                if isinstance(outcome, Raises):
                    post = full_state(w.dir)
                    if post != pre:
                        bad('fault-not-rolled-back', body,
                            'failure at event %d %r' % (i, log[i]),
                            'block raised %r but contents went from %r to %r, '
                            'files %r -> %r' % (
                                outcome, pre_rows,
                                Snapshot(w.dir).contents(), pre[1], post[1]))
                    extra = lib_check(w.cache)
                    if extra:
                        bad('abort-inconsistent', body,
                            'failure at event %d %r' % (i, log[i]),
                            'check() reports %r' % (extra[:3],))
            finally:
                ENV.hook = None
                w.close()
    part['samples'].append({'init': init, 'bodies': len(bodies),
                            'example': [list(b) for b in bodies[0]]})
    return part


def impl_op_raising(cache, op):
    """Like impl_op but lets exceptions escape (so the block aborts)."""
    r = impl_op(cache, op)
    if isinstance(r, Raises) and r.name in ('OperationalError', 'OSError',
                                            'Timeout'):
        raise RuntimeError('operation failed inside block: %r' % (r,))
    return r


def container_unit(unit):
    """Deque.transact, Index.transact, FanoutCache.transact: raise after
    every prefix of a fixed body; contents must be untouched."""
    import diskcache as dc
    from .c12 import small_files
    part = {'states': 0, 'transitions': 0, 'executions': 0, 'violations': [],
            'outcomes': {}, 'samples': [], 'caps': [],
            'label': 'grid/containers'}
    big, bigb = val(BIG), val(BIGB)
    cases = {
        'deque': (lambda d: (small_files(d), dc.Deque([big, 1, 2], directory=d))[1],
                  [lambda o: o.append(bigb), lambda o: o.popleft(),
                   lambda o: o.__setitem__(0, 'z'), lambda o: o.rotate(1),
                   lambda o: o.appendleft(big)],
                  lambda o: list(o), lambda o: [o.directory],
                  lambda o: o.cache),
        'index': (lambda d: (small_files(d), dc.Index(d, [('a', big), ('b', 1)]))[1],
                  [lambda o: o.__setitem__('a', bigb),
                   lambda o: o.__delitem__('b'), lambda o: o.popitem(),
                   lambda o: o.setdefault('z', big),
                   lambda o: o.update(c=3)],
                  lambda o: list(o.items()), lambda o: [o.directory],
                  lambda o: o.cache),
        'fanout': (lambda d: dc.FanoutCache(d, shards=2, disk_min_file_size=8),
                   [lambda o: o.set('a', bigb), lambda o: o.set('b', 2),
                    lambda o: o.delete('c'), lambda o: o.incr('n'),
                    lambda o: o.pop('d')],
                   lambda o: sorted((k, o[k]) for k in o),
                   lambda o: [o.directory + '/000', o.directory + '/001'],
                   lambda o: o),
    }
    for name, (make, steps, view, dirs, owner) in cases.items():
        for k in range(len(steps) + 1):
            d = run.fresh_dir('b')
            ENV.reset(run.scratch())
            obj = make(d)
            try:
                if name == 'fanout':
                    for key, v in (('a', big), ('c', bigb), ('d', big),
                                   ('n', 1)):
                        obj.set(key, v)
                pre_view = view(obj)
                pre = tuple(full_state(x) for x in dirs(obj))

                def run_block():
                    with obj.transact():
                        for s in steps[:k]:
                            s(obj)
                        raise BlockAbort()
                got = call(run_block)
                part['transitions'] += 1
                part['executions'] += 1
                part['states'] += 1
                post = tuple(full_state(x) for x in dirs(obj))
                post_view = call(view, obj)
                if got != Raises('BlockAbort') or post != pre or \
                        not same(post_view, pre_view):
                    part['violations'].append({
                        'signature': {'clause': 'abort-not-rolled-back',
                                      'target': name},
                        'message': 'abort-not-rolled-back: %s.transact, raise '
                                   'after %d steps: block -> %r, contents %r '
                                   '-> %r' % (name, k, got, pre_view,
                                              post_view),
                        'replay': {'engine': 'GRID', 'module': 'props.c06',
                                   'target': name, 'k': k}})
                # a committed block is visible afterwards
                if k == len(steps):
                    def run_commit():
                        with obj.transact():
                            for s in steps:
                                s(obj)
                    call(run_commit)
                    if same(call(view, obj), pre_view):
                        part['violations'].append({
                            'signature': {'clause': 'commit-lost',
                                          'target': name},
                            'message': 'commit-lost: %s.transact committed '
                                       'but nothing changed' % name,
                            'replay': {'engine': 'GRID',
                                       'module': 'props.c06',
                                       'target': name, 'k': -1}})
            finally:
                try:
                    owner(obj).close()
                except Exception:
                    pass
                run.drop(d)
    return part


# ------------------------------------------------------------------ SCHED ---

class FanoutBlockScenario(ObjScenario):
    replay_module = 'props.c06'

    def make(self, directory):
        import diskcache as dc
        return dc.FanoutCache(directory, shards=2, disk_min_file_size=8)

    def close(self, obj):
        obj.close()

    def dirs(self):
        return [self.dir + '/000', self.dir + '/001']

    def do(self, fc, op):
        if op[0] == 'block':
            def run_block():
                out = []
                with fc.transact():
                    for b in op[1]:
                        out.append(self.do(fc, b))
                    if op[2]:
                        raise BlockAbort()
                return tuple(out)
            return call(run_block)
        if op[0] == 'set':
            return call(fc.set, op[1], val(op[2]), retry=True)
        if op[0] == 'get':
            return call(fc.get, op[1])
        if op[0] == 'incr':
            return call(fc.incr, op[1], retry=True)
        raise ValueError(op)

    def spec0(self):
        return {}

    def apply(self, spec, op):
        if op[0] == 'block':
            if op[2]:
                return Raises('BlockAbort')     # no effect
            return tuple(self.apply(spec, b) for b in op[1])
        if op[0] == 'set':
            spec[op[1]] = val(op[2])
            return True
        if op[0] == 'get':
            return spec.get(op[1])
        if op[0] == 'incr':
            spec[op[1]] = spec.get(op[1], 0) + 1
            return spec[op[1]]

    def final_view(self):
        out = {}
        for d in self.dirs():
            for k, v, e, t in Snapshot(d).contents():
                out[k] = v
        return out

    def final_ok(self, spec):
        return same(self.final_view(), dict(spec))


def sched_plan(tier):
    S = lambda k, v: ('set', k, v, None, None)    # noqa: E731
    blockAB = ('block', (S('a', BIG), S('b', 2)), None)
    blockAbort = ('block', (S('a', BIG), S('b', 2)), 2)
    blockPop = ('block', (('pop', 'a', 0), S('b', BIGB)), None)
    blockIncr = ('block', (('incr', 'n', 1, 0), ('incr', 'm', 1, 0)), None)
    reader = [('get', 'a', 0), ('get', 'b', 0)]
    units = []
    for mode in ('own', 'shared'):
        units += [
            ([[blockAB], reader], 'two', mode, None if tier == 'thorough'
             or mode == 'own' else 3),
            ([[blockAbort], reader], 'two', mode, 3),
            ([[blockAB], [S('b', 9)]], 'two', mode, None),
            ([[blockAB], [('incr', 'b', 1, 0)]], 'two', mode, None),
            ([[blockPop], [('get', 'a', 0)]], 'file', mode, None),
            ([[blockIncr], [blockIncr]], 'absent', mode, None),
            ([[blockIncr], [('incr', 'n', 1, 0)], [('incr', 'm', 1, 0)]],
             'absent', mode, 1 if tier == 'quick' else 2),
            ([[blockAbort], [S('a', 5)]], 'two', mode, None),
            ([[('pop', 'a', 0)], [('block', (S('b', 2), S('c', 3)), None)]],
             'file', mode, None),
            ([[('pull', None, 'front', 0)],
              [('block', (S('b', 2),), None)]], 'fileq', mode, None),
            # an operation of another thread that fails inside its own
            # transaction while this thread owns a block, then a second block
            ([[blockAB, ('block', (S('a', 5), S('c', BIGB)), 2)],
              [('delete', 'zz')]], 'two', mode, 2),
            ([[blockIncr, ('block', (('incr', 'n', 1, 0), S('b', BIG)), 2)],
              [('incr', 'zz', 1, None)]], 'two', mode, 2),
        ]
    return units


def work(unit):
    kind = unit[0]
    if kind == 'bodies':
        return body_unit(unit)
    if kind == 'containers':
        return container_unit(unit)
    if kind == 'index-sched':
        from .c12 import IndexScenario
        _, programs, init, bound, cap = unit
        part = sched.explore(lambda: IndexScenario(programs, init, 'own'),
                             bound=bound, por=True, time_cap=cap)
        part['label'] = 'sched/index'
        return part
    if kind == 'fanout-sched':
        _, programs, bound, cap = unit[:4]
        mode = unit[4] if len(unit) > 4 else 'own'
        part = sched.explore(lambda: FanoutBlockScenario(programs, [], mode),
                             bound=bound, por=True, time_cap=cap)
        part['label'] = 'sched/fanout'
        return part
    _, programs, init, mode, bound, cap = unit

    class BlockScenario(CacheScenario):
        relax = True

    part = sched.explore(
        lambda: BlockScenario(programs, c05.INITS[init], mode, MFS),
        bound=bound, por=True, time_cap=cap)
    part['label'] = 'sched/cache'
    return part


def bodies(tier):
    maxlen = 2 if tier == 'quick' else 3
    out = []
    for n in range(1, maxlen + 1):
        for body in itertools.product(ELEMENTS, repeat=n):
            if n == 3 and len({b[0] for b in body}) < 2:
                continue
            out.append(body)
    return out


def main(tier, seed):
    rep = run.Report('C06', tier, seed, TECHNIQUE)
    cap = 200 if tier == 'quick' else 3000
    units = []
    allb = bodies(tier)
    chunk = 12 if tier == 'quick' else 40
    for init in INITS:
        for i in range(0, len(allb), chunk):
            part = allb[i:i + chunk]
            inject = tier == 'thorough' or all(len(b) <= 2 for b in part)
            units.append(('bodies', init, part, inject))
        # the same blocks when an earlier write of this client timed out
        short = [b for b in allb if len(b) == 1] if tier == 'quick' else \
            [b for b in allb if len(b) <= 2]
        for i in range(0, len(short), chunk):
            units.append(('bodies', init, short[i:i + chunk], False,
                          'timeout'))
    units.append(('containers',))
    for programs, init, mode, bound in sched_plan(tier):
        units.append(('sched', programs, init, mode, bound, cap))
    fb = ('block', (('set', 'a', 1), ('set', 'b', BIG)), None)
    fb2 = ('block', (('set', 'b', 2), ('set', 'a', BIGB)), None)
    units.append(('fanout-sched', [[fb], [fb2]], None, cap))
    units.append(('fanout-sched', [[fb], [('get', 'a'), ('get', 'b')]],
                  3 if tier == 'quick' else None, cap))
    fab = ('block', (('set', 'b1', 'one'), ('set', 'b2', BIG)), True)
    units.append(('fanout-sched', [[fb], [fab]], 2, cap, 'shared'))
    units.append(('fanout-sched', [[fab], [('get', 'b1'), ('get', 'b2')]],
                  2, cap, 'shared'))
    units.append(('fanout-sched', [[('block', (('incr', 'n'), ('incr', 'm')),
                                     None)],
                                   [('block', (('incr', 'm'), ('incr', 'n')),
                                     None)]], None, cap))
    # Index.transact: the block's writes appear together and a key that the
    # block replaces (file-backed -> file-backed) is never seen missing
    from .c12 import BIG as IBIG
    itx = ('txn', (('set', 'a', IBIG), ('set', 'b', 2)))
    iinit = [('set', 'b', 1), ('set', 'a', ('$T', 13))]
    units.append(('index-sched', [[('get', 'a')], [itx]], iinit, None, cap))
    units.append(('index-sched', [[('get', 'b'), ('get', 'a')], [itx]], iinit,
                  2 if tier == 'quick' else None, cap))
    units = run.shuffled(units, seed)
    for part in run.pmap(work, units):
        rep.merge(part, part.get('label'))
    rep.bounds = {
        'bodies': '%d block bodies (length <= %d over %d elements incl. a '
                  'nested block that raises and is caught) x 3 initial states '
                  'x raise after every prefix; a failure injected at every '
                  'event inside the block for bodies of length <= 2%s; the '
                  'short bodies again after a write of the same client '
                  'timed out'
                  % (len(allb), 2 if tier == 'quick' else 3, len(ELEMENTS),
                     ' (all lengths in thorough)' if tier == 'thorough'
                     else ''),
        'containers': 'Deque/Index/FanoutCache.transact: raise after every '
                      'prefix of a 5-step body',
        'sched': 'block vs reader / writer / second block, own and shared '
                 'Cache objects; FanoutCache.transact pairs; Index.transact '
                 'block vs lookups (no miss tolerated); all '
                 'interleavings or <= 3 preemptions',
    }
    rep.assumptions = [
        'a raise is injected between operations of the body or as a failing '
        'statement / file operation; a failing COMMIT is not modelled',
        'rollback restores the directory exactly: rows (incl. row metadata) '
        'and the set of value files with their contents',
    ]
    return run.finish(rep)


def replay(rp):
    from ..scen import replay_obj
    return replay_obj(FanoutBlockScenario, rp)
