"""C04 - items are visible until their expiry time passes and never
afterwards.  SEQ (expiry-centred alphabets incl. queue operations, every
cull_limit) + exhaustive population sweep of expired items across the page
size."""
from .. import run, seq
from ..worlds import CacheWorld
from . import c03
from .sweep import sweep_units

TECHNIQUE = ('explicit-state BFS over expiry histories of the real Cache '
             'under a virtual clock against a reference model; exhaustive '
             'population sweep 0..210 of expired items')

BIG = ('$T', 12)
HUGE = 10 ** 10


def slice_ttl():
    """One key, every ttl class, every operation that reads/writes expiry."""
    ops = [('set', 'a', 1, None, None), ('set', 'a', 5, 1, 't'),
           ('set', 'a', BIG, 2, None), ('set', 'a', 6, 0, None),
           ('set', 'a', 7, -1, None), ('set', 'a', 8, HUGE, None),
           ('set', 'a', 9, -HUGE, None),
           ('set', 'b', 9, 1, None),
           ('add', 'a', 2, None, None), ('add', 'a', 3, 1, None),
           ('add', 'a', 4, 0, None),
           ('touch', 'a', None), ('touch', 'a', 1), ('touch', 'a', 0),
           ('touch', 'a', -1),
           ('incr', 'a', 1, 0), ('incr', 'a', 1, None), ('decr', 'a', 1, 0),
           ('get', 'a', 2), ('getitem', 'a'), ('contains', 'a'),
           ('pop', 'a', 2), ('delete', 'a'), ('delitem', 'a'),
           ('peekitem', True, 2), ('peekitem', False, 0),
           ('expire',), ('cull',), ('len',), ('keys',), ('tick', 1)]
    return ops


def slice_queue():
    ops = [('push', 1, None, 'back', 1, None), ('push', BIG, None, 'back', 2, None),
           ('push', 2, None, 'front', None, None), ('push', 3, None, 'back', 0, None),
           ('push', 4, 'q', 'back', 1, 't'), ('push', 5, 'q', 'front', None, None),
           ('pull', None, 'front', 2), ('pull', None, 'back', 0),
           ('pull', 'q', 'front', 6), ('peek', None, 'front', 2),
           ('peek', None, 'back', 0), ('peek', 'q', 'back', 4),
           ('set', 'a', 1, 1, None), ('get', 'a', 0),
           ('expire',), ('len',), ('keys',), ('tick', 1)]
    return ops


def slice_lazy():
    """Writes that cull lazily, several items expiring at different times."""
    ops = [('set', 'a', 1, 1, None), ('set', 'b', 2, 1, None),
           ('set', 'c', BIG, 2, None), ('set', 'd', 4, None, None),
           ('set', 'e', 5, 0, None),
           ('add', 'f', 6, 1, None), ('incr', 'g', 1, 0),
           ('push', 7, None, 'back', None, None),
           ('get', 'a', 0), ('get', 'c', 0), ('touch', 'b', 3),
           ('delete', 'd'), ('len',), ('keys',), ('expire',), ('tick', 1)]
    return ops


SLICES = {'ttl': slice_ttl, 'queue': slice_queue, 'lazy': slice_lazy}


def plan(tier):
    units = []
    if tier == 'quick':
        grid = [('ttl', {'cull_limit': 10}, 3), ('ttl', {'cull_limit': 0}, 3),
                ('queue', {'cull_limit': 10}, 3), ('queue', {'cull_limit': 0}, 3),
                ('lazy', {'cull_limit': 1}, 3), ('lazy', {'cull_limit': 2}, 3),
                ('lazy', {'cull_limit': 10,
                          'eviction_policy': 'least-recently-used'}, 3),
                ('lazy', {'cull_limit': 0, 'eviction_policy': 'none'}, 3)]
    else:
        grid = []
        for name in SLICES:
            for cl in (0, 1, 2, 10):
                for pol in ('least-recently-stored', 'least-frequently-used',
                            'none'):
                    grid.append((name, {'cull_limit': cl,
                                        'eviction_policy': pol}, 4))
    for name, st, depth in grid:
        st = dict(st, disk_min_file_size=8)
        units.append((name, st, depth, 3))
    return units


def work(unit):
    if unit[0] == 'sweep':
        from .sweep import sweep_unit
        return sweep_unit(unit)
    _, name, settings, depth, ticks, seed, cap = unit
    alphabet = run.shuffled(SLICES[name](), seed, name)
    part = seq.bfs(lambda: CacheWorld(settings), alphabet, depth,
                   allow=c03.allow_ticks(ticks), label=name, time_cap=cap)
    part['label'] = 'bfs/' + name
    return part


def main(tier, seed):
    rep = run.Report('C04', tier, seed, TECHNIQUE)
    units = [('bfs', name, st, depth, ticks, seed,
              150 if tier == 'quick' else 2400)
             for name, st, depth, ticks in plan(tier)]
    units += sweep_units('C04', tier)
    units = run.shuffled(units, seed)
    for part in run.pmap(work, units):
        rep.merge(part, part.get('label'))
    rep.bounds = {
        'bfs': 'every history over each expiry slice up to the depth in '
               'parts; ttl in {None, 0, 1, 2, -1, 1e10}; clock <= 3 unit '
               'ticks; cull_limit in {0,1,2,10}',
        'sweep': 'n in 0..210 expired items: one shared expiry time, two '
                 'times split at 1/50/99/100/101/150/199/200/201, distinct '
                 'times, items exactly at their expiry instant; expire, cull, '
                 'lazy-culling write, iteration, peekitem',
    }
    rep.assumptions = [
        'the clock is constant inside one call (mid-operation clock steps '
        'are not explored)',
        'an item is expired from the instant now >= expire_time; expire() and '
        'lazy culling must remove every item with expire_time < now, may '
        'remove those with expire_time == now, and nothing else',
    ]
    return run.finish(rep)
