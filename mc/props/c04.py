"""C04 - items are visible until their expiry time passes and never
afterwards.  SEQ (expiry-centred alphabets incl. queue operations, every
cull_limit) + exhaustive population sweep of expired items across the page
size."""
from .. import run, seq
from ..env import ENV
from ..worlds import CacheWorld
from . import c03
from .sweep import sweep_units

TECHNIQUE = ('explicit-state BFS over expiry histories of the real Cache '
             'under a virtual clock against a reference model; exhaustive '
             'population sweep 0..210 of expired items')

BIG = ('$T', 12)
HUGE = 10 ** 10


def slice_ttl():
    """One key, every ttl class, every operation that reads/writes expiry."""
    ops = [('set', 'a', 1, None, None), ('set', 'a', 5, 1, 't'),
           ('set', 'a', BIG, 2, None), ('set', 'a', 6, 0, None),
           ('set', 'a', 7, -1, None), ('set', 'a', 8, HUGE, None),
           ('set', 'a', 9, -HUGE, None),
           ('set', 'b', 9, 1, None),
           ('add', 'a', 2, None, None), ('add', 'a', 3, 1, None),
           ('add', 'a', 4, 0, None),
           ('touch', 'a', None), ('touch', 'a', 1), ('touch', 'a', 0),
           ('touch', 'a', -1),
           ('incr', 'a', 1, 0), ('incr', 'a', 1, None), ('decr', 'a', 1, 0),
           ('get', 'a', 2), ('getitem', 'a'), ('contains', 'a'),
           ('pop', 'a', 2), ('delete', 'a'), ('delitem', 'a'),
           ('peekitem', True, 2), ('peekitem', False, 0),
           ('expire',), ('cull',), ('len',), ('keys',), ('tick', 1)]
    return ops


def slice_queue():
    ops = [('push', 1, None, 'back', 1, None), ('push', BIG, None, 'back', 2, None),
           ('push', 2, None, 'front', None, None), ('push', 3, None, 'back', 0, None),
           ('push', 4, 'q', 'back', 1, 't'), ('push', 5, 'q', 'front', None, None),
           ('pull', None, 'front', 2), ('pull', None, 'back', 0),
           ('pull', 'q', 'front', 6), ('peek', None, 'front', 2),
           ('peek', None, 'back', 0), ('peek', 'q', 'back', 4),
           ('set', 'a', 1, 1, None), ('get', 'a', 0),
           ('expire',), ('len',), ('keys',), ('tick', 1)]
    return ops


def slice_lazy():
    """Writes that cull lazily, several items expiring at different times."""
    ops = [('set', 'a', 1, 1, None), ('set', 'b', 2, 1, None),
           ('set', 'c', BIG, 2, None), ('set', 'd', 4, None, None),
           ('set', 'e', 5, 0, None),
           ('add', 'f', 6, 1, None), ('incr', 'g', 1, 0),
           ('push', 7, None, 'back', None, None),
           ('get', 'a', 0), ('get', 'c', 0), ('touch', 'b', 3),
           ('delete', 'd'), ('len',), ('keys',), ('expire',), ('tick', 1)]
    return ops


SLICES = {'ttl': slice_ttl, 'queue': slice_queue, 'lazy': slice_lazy}


def plan(tier):
    units = []
    if tier == 'quick':
        grid = [('ttl', {'cull_limit': 10}, 3), ('ttl', {'cull_limit': 0}, 3),
                ('queue', {'cull_limit': 10}, 3), ('queue', {'cull_limit': 0}, 3),
                ('lazy', {'cull_limit': 1}, 3), ('lazy', {'cull_limit': 2}, 3),
                ('lazy', {'cull_limit': 10,
                          'eviction_policy': 'least-recently-used'}, 3),
                ('lazy', {'cull_limit': 0, 'eviction_policy': 'none'}, 3)]
    else:
        grid = []
        for name in SLICES:
            for cl in (0, 1, 2, 10):
                for pol in ('least-recently-stored', 'least-frequently-used',
                            'none'):
                    grid.append((name, {'cull_limit': cl,
                                        'eviction_policy': pol}, 4))
    for name, st, depth in grid:
        st = dict(st, disk_min_file_size=8)
        units.append((name, st, depth, 3))
    return units


class Retrying:
    """Cache proxy whose calls wait for the lock (retry=True)."""

    def __init__(self, cache):
        self._c = cache

    def __getattr__(self, name):
        import functools
        import inspect
        attr = getattr(self._c, name)
        try:
            if callable(attr) and 'retry' in inspect.signature(
                    attr).parameters:
                return functools.partial(attr, retry=True)
        except (TypeError, ValueError):
            pass
        return attr

    def __getitem__(self, key):
        return self._c[key]

    def __contains__(self, key):
        return key in self._c

    def __delitem__(self, key):
        del self._c[key]

    def __len__(self):
        return len(self._c)


def wait_cases():
    S = lambda k, v, e: ('set', k, v, e, None)    # noqa: E731
    a_inline, a_file = [S('a', 1, 3)], [S('a', ('$T', 12), 3)]
    queue = [('push', 1, None, 'back', 3, None),
             ('push', ('$T', 12), None, 'back', None, None)]
    cases = []
    for init in (a_inline, a_file):
        cases += [
            (init, ('get', 'a', 0)), (init, ('get', 'a', 2)),
            (init, ('getitem', 'a')), (init, ('contains', 'a')),
            (init, ('touch', 'a', 100)), (init, ('touch', 'a', None)),
            (init, ('add', 'a', 2, None, None)),
            (init, ('add', 'a', ('$T', 13), 50, None)),
            (init, ('pop', 'a', 0)), (init, ('pop', 'a', 2)),
            (init, ('delete', 'a')),
            (init, ('peekitem', True, 0)), (init, ('peekitem', False, 2)),
        ]
    cases += [
        ([S('n', 7, 3)], ('incr', 'n', 1, 50)),
        ([S('n', 7, 3)], ('decr', 'n', 1, 50)),
        ([S('n', 7, 3)], ('incr', 'n', 2, None)),
        (queue, ('pull', None, 'front', 0)),
        (queue, ('peek', None, 'front', 0)),
        (queue, ('pull', None, 'front', 2)),
    ]
    return cases


# (failed attempts before the lock is released, virtual seconds each takes)
WAITS = [(1, 5.0), (2, 2.0), (2, 1.0), (3, 1.0), (1, 3.0)]


def wait_unit(unit):
    """The clock moves while a call waits for the write lock: an item whose
    time-to-live runs out during the wait is expired for that call (its
    result is the reference's result at the moment the call returns)."""
    import os
    from ..fault import LockHook
    from ..worlds import impl_op, model_op
    from ..spec import same
    _, settings = unit
    part = {'states': 0, 'transitions': 0, 'executions': 0, 'violations': [],
            'outcomes': {}, 'samples': [], 'caps': [], 'label': 'fault/wait'}
    for init, op in wait_cases():
        part['states'] += 1
        for k, adv in WAITS:
            w = CacheWorld(settings)
            hook = None
            try:
                for o in init:
                    w.apply_fast(o)
                t0 = ENV.now
                hook = LockHook(os.path.join(w.dir, 'cache.db'), 'release',
                                None, k, 50, adv)
                ENV.hook = hook
                try:
                    got = impl_op(Retrying(w.cache), op)
                finally:
                    hook.enabled = False
                    ENV.hook = None
                    hook.close()
                waited = ENV.now - t0
                want = model_op(w.spec, op)
                part['transitions'] += 1
                part['executions'] += 1
                okey = 'waited-%s/%s' % (
                    'past-expiry' if waited >= 3 else 'short',
                    'agrees' if same(got, want) else 'differs')
                part['outcomes'][okey] = part['outcomes'].get(okey, 0) + 1
                if not same(got, want):
                    part['violations'].append({
                        'signature': {'clause': 'expired-during-wait',
                                      'op': op[0]},
                        'message': 'expired-during-wait: settings %r, item(s) '
                                   '%r with 3 s to live; %r waited %.1f s for '
                                   'the write lock (%d failed attempts) and '
                                   'returned %r; at the time it returned the '
                                   'reference says %r'
                                   % (settings, init, op, waited, k, got,
                                      want),
                        'replay': {'engine': 'FAULT', 'module': 'props.c04',
                                   'settings': settings,
                                   'init': [list(o) for o in init],
                                   'op': list(op), 'wait': [k, adv]}})
            finally:
                if hook is not None:
                    hook.close()
                ENV.hook = None
                w.close()
    part['samples'].append({'settings': settings, 'cases': len(wait_cases()),
                            'waits': WAITS})
    return part


def work(unit):
    if unit[0] == 'wait':
        return wait_unit(unit)
    if unit[0] == 'sweep':
        from .sweep import sweep_unit
        return sweep_unit(unit)
    _, name, settings, depth, ticks, seed, cap = unit
    alphabet = run.shuffled(SLICES[name](), seed, name)
    part = seq.bfs(lambda: CacheWorld(settings), alphabet, depth,
                   allow=c03.allow_ticks(ticks), label=name, time_cap=cap)
    part['label'] = 'bfs/' + name
    return part


def main(tier, seed):
    rep = run.Report('C04', tier, seed, TECHNIQUE)
    units = [('bfs', name, st, depth, ticks, seed,
              150 if tier == 'quick' else 2400)
             for name, st, depth, ticks in plan(tier)]
    units += sweep_units('C04', tier)
    for st in ({}, {'statistics': 1},
               {'eviction_policy': 'least-recently-used'},
               {'eviction_policy': 'none', 'cull_limit': 0}):
        units.append(('wait', dict(st, disk_min_file_size=8)))
    units = run.shuffled(units, seed)
    for part in run.pmap(work, units):
        rep.merge(part, part.get('label'))
    rep.bounds = {
        'bfs': 'every history over each expiry slice up to the depth in '
               'parts; ttl in {None, 0, 1, 2, -1, 1e10}; clock <= 3 unit '
               'ticks; cull_limit in {0,1,2,10}',
        'sweep': 'n in 0..210 expired items: one shared expiry time, two '
                 'times split at 1/50/99/100/101/150/199/200/201, distinct '
                 'times, items exactly at their expiry instant; expire, cull, '
                 'lazy-culling write, iteration, peekitem',
    }
    rep.assumptions = [
        'the clock is constant inside one call (mid-operation clock steps '
        'are not explored)',
        'an item is expired from the instant now >= expire_time; expire() and '
        'lazy culling must remove every item with expire_time < now, may '
        'remove those with expire_time == now, and nothing else',
    ]
    return run.finish(rep)
