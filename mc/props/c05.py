"""C05 - every single operation is atomic under concurrent clients.

SCHED: all interleavings (visited-state cache, partial-order reduction
inside write transactions) of small programs on one cache directory;
linearizability against SpecCache with the single relaxation the property
allows (a lookup overlapping a write of the same key may miss)."""
import itertools

from .. import run, sched
from ..scen import CacheScenario

TECHNIQUE = ('stateless exploration of all interleavings of SQL statements '
             'and file operations of 2-3 real client threads under a '
             'controlled scheduler (state cache, POR), brute-force '
             'linearizability oracle')

BIG = ('$T', 12)
BIG2 = ('$T', 14)
MFS = {'disk_min_file_size': 8}

OPS = [
    ('set', 'a', 1, None, None),
    ('set', 'a', BIG, None, None),
    ('set_chunks', 'a', (b'xxxxxx', b'yyyyyy'), None, None),
    ('add', 'a', 2, None, None),
    ('add', 'a', BIG2, None, None),
    ('incr', 'a', 1, 0),
    ('decr', 'a', 1, 0),
    ('get', 'a', 0),
    ('getitem', 'a'),
    ('read', 'a'),
    ('pop', 'a', 0),
    ('delete', 'a'),
    ('touch', 'a', 5),
    ('touch', 'a', 0),
    ('contains', 'a'),
    ('len',),
    ('keys',),
]
SET_INLINE, SET_FILE, ADD, INCR = OPS[0], OPS[1], OPS[3], OPS[5]
GET, GETITEM, POP, DELETE = OPS[7], OPS[8], OPS[10], OPS[11]
CONTAINS, LEN = OPS[14], OPS[15]
assert (GET[0], POP[0], DELETE[0], CONTAINS[0], LEN[0]) == (
    'get', 'pop', 'delete', 'contains', 'len')
READS = {'get', 'getitem', 'read', 'contains', 'len', 'keys'}

INITS = {
    'absent': [],
    'inline': [('set', 'a', 7, None, None)],
    'file': [('set', 'a', ('$T', 13), None, None)],
    'bfile': [('set', 'a', ('$B', 13), None, None)],
    'expired': [('set', 'a', ('$T', 13), 1, None), ('tick', 2)],
    'two': [('set', 'b', 1, None, None), ('set', 'a', 7, None, None)],
    'fileq': [('push', ('$T', 13), None, 'back', None, None)],
    'yvals': [('set', 'c', ('$Y', 3), None, None),
              ('set', 'd', ('$Y', 4, 30), None, None)],
}


def pairs():
    return list(itertools.combinations_with_replacement(range(len(OPS)), 2))


def plan(tier):
    """-> list of (programs, init name, mode, settings, bound)"""
    units = []
    for i, j in pairs():
        a, b = OPS[i], OPS[j]
        if a[0] in READS and b[0] in READS:
            continue
        inits = ['absent', 'file']
        if tier == 'thorough':
            inits = ['absent', 'inline', 'file', 'bfile', 'expired', 'two']
        elif 'incr' in (a[0], b[0]) or 'decr' in (a[0], b[0]):
            inits = ['absent', 'inline']
        elif a[0] in ('len', 'keys') or b[0] in ('len', 'keys'):
            inits = ['two']
        elif a[0] == 'read' or b[0] == 'read':
            inits = ['bfile']
        for init in inits:
            units.append(([[a], [b]], init, 'own', MFS, None))
            if tier == 'thorough' or (i + j) % 3 == 0:
                units.append(([[a], [b]], init, 'shared', MFS, None))
    # slow-path lookups (statistics / LRU turn reads into writes)
    slow = [dict(MFS, statistics=1),
            dict(MFS, eviction_policy='least-recently-used')]
    for st in slow:
        for w in (SET_FILE, INCR, POP, DELETE):
            for r in (GET, GETITEM):
                units.append(([[w], [r]], 'file', 'own', st, None))
    # an operation that raised inside its transaction, then a second one
    failing = [('delitem', 'zz'), ('incr', 'zz', 1, None), ('delete', 'zz')]
    seconds = [('incr', 'a', 1, 0), ('add', 'a', 2, None, None),
               ('pop', 'a', 0)]
    for f in failing:
        for s in seconds:
            for mode in ('own', 'shared'):
                units.append(([[f, s], [s]], 'inline' if s[0] != 'add'
                              else 'absent', mode, MFS, None))
    # iteration against an insert followed by a delete (two statements in
    # __iter__): the one anomaly known on the pinned tree
    units.append(([[('keys',)], [('set', 'c', 1, None, None),
                                 ('delete', 'a')]], 'inline', 'own', MFS,
                  None))
    units.append(([[('rkeys',)], [('set', 'c', 1, None, None),
                                  ('delete', 'a')]], 'inline', 'own', MFS,
                  None))
    # a lookup against delete + insert of another key (row id reuse)
    for look in (GET, GETITEM, ('read', 'a')):
        units.append(([[look], [DELETE, ('set', 'c', BIG2, None, None)]],
                      'file', 'own', MFS, 2))
        units.append(([[look], [POP, ('add', 'c', BIG2, None, None)]],
                      'bfile', 'own', MFS, 2))
    # a suspended iteration (one key taken) followed by ordinary lookups on
    # the same client, against completed writes of another client
    for w, look in ((('set', 'a', 9, None, None), ('get', 'a', 0)),
                    (('delete', 'a'), ('contains', 'a')),
                    (('add', 'c', 1, None, None), ('get', 'c', 0)),
                    (('set', 'a', BIG, None, None), ('len',))):
        units.append(([[('iternext',), look], [w]], 'two', 'own', MFS, 2))
    # values whose pickling hooks run Python code: a scheduling point inside
    # Disk.store / Disk.fetch, so that threads sharing one Cache (and its
    # Disk object) interleave in the middle of serialization
    Y1, Y2 = ('set', 'a', ('$Y', 1), None, None), \
        ('set', 'b', ('$Y', 2, 30), None, None)
    for st in (MFS, {}):
        for mode in ('shared', 'own'):
            units.append(([[Y1], [Y2]], 'absent', mode, st, None))
            units.append(([[Y1], [('get', 'c', 0)]], 'yvals', mode, st, None))
            units.append(([[('get', 'd', 0)], [('get', 'c', 0)]], 'yvals',
                          mode, st, None))
            units.append(([[Y1, ('get', 'a', 0)],
                           [('set', 'a', 5, None, None)]], 'yvals', mode, st,
                          2))
    # a handle being opened while another client writes (constructor runs
    # ~70 statements against the shared directory)
    for w in (SET_FILE, ('set', 'c', 1, None, None), POP, DELETE, INCR):
        units.append(([[('open',)], [w]], 'file' if w is not INCR
                      else 'inline', 'own', MFS,
                      1 if tier == 'quick' else 2))
    if tier == 'thorough':
        writes = [SET_INLINE, SET_FILE, ADD, INCR, POP, DELETE]
        reads = [GET, CONTAINS, LEN]
        # 2 clients x 2 operations (<= 3 preemptions)
        for w1, w2 in itertools.product(writes, repeat=2):
            for x in writes + reads:
                units.append(([[w1, w2], [x]], 'file', 'own', MFS, 3))
        # 3 clients, preemption bound 2
        for a, b, c in itertools.combinations_with_replacement(
                writes + reads[:1], 3):
            units.append(([[a], [b], [c]], 'file', 'own', MFS, 2))
    return units


def work(unit):
    programs, init, mode, settings, bound, cap = unit
    label = '%s|%s|%s' % (
        '||'.join('+'.join(op[0] for op in p) for p in programs), init, mode)

    def factory():
        return CacheScenario(programs, INITS[init], mode, settings, label)

    part = sched.explore(factory, bound=bound, por=True, time_cap=cap)
    part['label'] = 'sched/%dc%s' % (len(programs),
                                     '' if bound is None else '-pb%d' % bound)
    return part


def por_crosscheck(units):
    """Re-explore a fixed subset with the reduction off: outcome sets must be
    identical (soundness of the partial-order reduction, re-validated)."""
    out = []
    for programs, init, mode, settings, bound in units:
        res = []
        for por in (True, False):
            part = sched.explore(
                lambda: CacheScenario(programs, INITS[init], mode, settings),
                bound=bound, por=por)
            res.append((sorted(part['outcomes']), len(part['violations'])))
        out.append(res[0] == res[1])
    return out


def work_por(unit):
    return por_crosscheck([unit])[0]


def main(tier, seed):
    rep = run.Report('C05', tier, seed, TECHNIQUE)
    cap = 300 if tier == 'quick' else 3000
    units = [u + (cap,) for u in plan(tier)]
    units = run.shuffled(units, seed)
    for part in run.pmap(work, units):
        rep.merge(part, part.get('label'))
    sub = [u[:5] for u in units[::max(1, len(units) // (8 if tier == 'quick' else 40))]]
    por_ok = run.pmap(work_por, sub)
    if not all(por_ok):
        raise SystemExit('INTERNAL ERROR: POR cross-check failed')
    rep.bounds = {
        'scenarios': len(units),
        'clients': '2 (all interleavings for 1x1 programs); 3 with <= 2 '
                   'preemptions (thorough)',
        'program_length': '1 (quick, plus failing-op prefixes, row-id reuse '
                          'and handle-opening programs), 2x1 with <= 3 '
                          'preemptions (thorough)',
        'modes': ['own Cache object per client', 'one shared Cache object'],
        'por_crosscheck': '%d scenarios re-explored without reduction, '
                          'outcome sets identical' % len(sub),
    }
    rep.assumptions = [
        'scheduling points: before every SQL statement and every file-system '
        'operation; Python code between them runs atomically',
        'SQLite snapshot isolation/locking is the trusted base (real SQLite '
        'decides SQLITE_BUSY)',
        'separate OS processes are represented by clients with separate '
        'Cache objects and connections in one process',
    ]
    return run.finish(rep)
