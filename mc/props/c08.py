"""C08 - counters, rows and value files agree once no operation is in flight.

Three sources, one audit (len = rows, size = sum of file sizes, every row's
file exists with the recorded size, no unreferenced value file, check()
silent apart from empty directories):
 (a) SEQ: BFS over a full-API alphabet (replace, add-on-present, incr, bulk
     removal, queue operations, transaction blocks that commit or abort);
 (b) FAULT: every operation x initial state x every single failure position
     (database error at the n-th statement, OS error at the n-th file
     operation, partial write) and unencodable values;
 (c) SCHED: the end state of every interleaving of small concurrent
     programs."""
import warnings

from .. import run, sched, seq
from ..alpha import Snapshot
from ..env import ENV
from ..fault import FaultHook
from ..scen import CacheScenario
from ..spec import Raises
from ..worlds import CacheWorld, World, call, impl_op, val
from . import c03, c05

TECHNIQUE = ('exhaustive single-fault enumeration over every event of every '
             'operation + explicit-state BFS + all interleavings of small '
             'programs, judged by an independent bookkeeping audit')

BIG = ('$T', 12)
BIGB = ('$B', 12)
MFS = {'disk_min_file_size': 8}


def lib_check(cache):
    """The library's own check(), empty-directory warnings dropped."""
    import diskcache
    with warnings.catch_warnings():
        warnings.simplefilter('always')
        try:
            warns = cache.check()
        except Exception as exc:
            return ['raised %s: %s' % (type(exc).__name__, exc)]
    return [str(w.message) for w in warns
            if not issubclass(w.category, diskcache.EmptyDirWarning)]


class Unpicklable:
    def __reduce__(self):
        raise TypeError('cannot pickle me')


INITS = {
    'absent': [],
    'inline': [('set', 'a', 7, None, 't')],
    'file': [('set', 'a', ('$T', 13), None, 't')],
    'expired': [('set', 'a', ('$B', 13), 1, None), ('set', 'z', 1, None, None),
                ('tick', 2)],
    'three': [('set', 'x', BIG, None, 't'), ('set', 'y', BIGB, 1, 't'),
              ('set', 'a', ('$T', 13), None, None), ('tick', 2)],
    'queue': [('push', BIG, None, 'back', None, None),
              ('push', BIGB, None, 'back', 1, None), ('tick', 2)],
}

OPS = [
    (('set', 'a', 1, None, None), ['absent', 'file', 'expired']),
    (('set', 'a', BIG, None, None), ['absent', 'inline', 'file', 'expired']),
    (('set_chunks', 'a', (b'xxxxxx', b'yyyyyy'), None, None), ['file']),
    (('add', 'a', BIG, None, None), ['absent', 'file', 'expired']),
    (('incr', 'a', 1, 0), ['absent', 'inline', 'expired']),
    (('touch', 'a', 5), ['file']),
    (('pop', 'a', 0), ['file', 'inline']),
    (('delete', 'a'), ['file']),
    (('delitem', 'a'), ['file', 'absent']),
    (('get', 'a', 0), ['file']),
    (('push', BIG, None, 'back', None, None), ['absent', 'queue']),
    (('pull', None, 'front', 0), ['queue']),
    (('peek', None, 'front', 0), ['queue']),
    (('peekitem', True, 0), ['three']),
    (('clear',), ['three']),
    (('evict', 't'), ['three']),
    (('expire',), ['three']),
    (('cull',), ['three']),
]


def run_case(settings, init, op, plan, special=None):
    """-> (outcome, problems, events)"""
    w = CacheWorld(settings)
    try:
        for o in INITS[init]:
            w.apply_fast(o)
        hook = FaultHook(plan)
        ENV.hook = hook
        try:
            if special == 'surrogate':
                outcome = call(w.cache.set, 'a', '\ud800' + 'x' * 20)
            elif special == 'surrogate-add':
                outcome = call(w.cache.add, 'b', 'y' * 20 + '\udfff')
            elif special == 'unpicklable':
                outcome = call(w.cache.set, 'a', Unpicklable())
            elif special == 'unpicklable-push':
                outcome = call(w.cache.push, [Unpicklable()] * 3)
            elif special and special.startswith('badkey-'):
                # a key that cannot be encoded together with a value that
                # goes to a file
                big, key = 'v' * 40, (Unpicklable(), 1)
                what = special[len('badkey-'):]
                if what == 'set':
                    outcome = call(w.cache.set, key, big)
                elif what == 'setitem':
                    outcome = call(w.cache.__setitem__, key, big)
                elif what == 'add':
                    outcome = call(w.cache.add, key, big)
                elif what == 'incr':
                    outcome = call(w.cache.incr, key, 1, 2 ** 70)
                elif what == 'touch':
                    outcome = call(w.cache.touch, key, 5)
                elif what == 'pop':
                    outcome = call(w.cache.pop, key, big)
                elif what == 'set-read':
                    import io
                    outcome = call(w.cache.set, key, io.BytesIO(b'r' * 40),
                                   read=True)
                else:
                    raise ValueError(special)
            else:
                outcome = impl_op(w.cache, op)
        finally:
            hook.enabled = False
            ENV.hook = None
        snap = Snapshot(w.dir)
        problems = snap.audit()
        fired = hook.fired
        if fired and fired[0] in ('remove', 'rmdir'):
            # the environment refused to delete: a file the library could not
            # remove may stay; everything else must still agree
            problems = [p for p in problems if 'unreferenced file' not in p]
        if not problems:
            extra = lib_check(w.cache)
            if fired and fired[0] in ('remove', 'rmdir'):
                extra = [e for e in extra if 'unknown file' not in e]
            problems = ['check(): ' + e for e in extra]
        return outcome, problems, hook.log, fired
    finally:
        w.close()


def fault_unit(unit):
    _, settings, init, op, special = unit
    part = {'states': 0, 'transitions': 0, 'executions': 0, 'violations': [],
            'outcomes': {}, 'samples': [], 'caps': [], 'label': 'fault'}
    outcome, problems, log, _ = run_case(settings, init, op, None, special)
    part['executions'] += 1
    n = len(log)
    part['states'] = n

    def report(plan, fired, outcome, problems):
        what = special or op[0]
        part['violations'].append({
            'signature': {'clause': 'bookkeeping', 'op': what,
                          'fault': (fired[0] if fired else 'none'),
                          'leak': any('unreferenced' in p or 'unknown file'
                                      in p for p in problems)},
            'message': 'bookkeeping: %s from state %s, fault at event %r (%r): '
                       'outcome %r; %s' % (what, init, plan, fired, outcome,
                                           '; '.join(problems[:3])),
            'replay': {'engine': 'FAULT', 'module': 'props.c08',
                       'unit': list(unit), 'plan': plan}})

    if problems:
        report(None, None, outcome, problems)
    for i in range(n):
        if log[i][0] == 'sql' and log[i][1].startswith(('ROLLBACK',
                                                         'COMMIT')):
            # SQLite's ROLLBACK does not fail on a usable handle; what a
            # failed COMMIT leaves behind is SQLite's business (not modelled)
            continue
        modes = ['fail']
        for mode in modes:
            outcome, problems, log2, fired = run_case(
                settings, init, op, (i, mode), special)
            part['transitions'] += 1
            part['executions'] += 1
            k = '%s/%s' % (fired[0] if fired else 'none',
                           'raised' if isinstance(outcome, Raises) else 'ok')
            part['outcomes'][k] = part['outcomes'].get(k, 0) + 1
            if problems:
                report((i, mode), fired, outcome, problems)
    if len(part['samples']) < 1:
        part['samples'].append({'op': list(op) if op else special,
                                'init': init, 'events': [list(e) for e in log]})
    return part


# ------------------------------------------------------------------- SEQ ---

class AuditWorld(CacheWorld):
    """CacheWorld plus transaction-block operations; only the bookkeeping
    clause is of interest here (results are checked by C03/C06)."""

    def apply(self, op):
        if op[0] == 'block':
            body, raises = op[1], op[2]
            c = self.cache

            def run_block():
                with c.transact():
                    for b in body:
                        impl_op(c, b)
                    if raises:
                        raise RuntimeError('abort')
            got = call(run_block)
            snap = Snapshot(self.dir)
            self.snap = snap
            # resynchronise the model from disk (results judged elsewhere)
            self.resync(snap)
            bad = snap.audit()
            return got, ([('bookkeeping', '; '.join(bad[:4]))] if bad else [])
        got, problems = super().apply(op)
        return got, [p for p in problems if p[0] == 'bookkeeping']

    def resync(self, snap):
        from ..spec import Item, norm_key
        self.spec.items.clear()
        for k, v, e, t in snap.contents():
            self.spec.items[norm_key(k)] = Item(k, v, e, t, ENV.now)

    def signature(self, hist, problems):
        last = hist[-1]
        return {'world': 'AuditWorld',
                'aborted_now': bool(last[0] == 'block' and last[2]),
                'file_ops_in_block': bool(last[0] == 'block' and any(
                    b[0] in ('pop', 'pull', 'delete') or
                    (b[0] in ('set', 'push', 'add') and b[0] != 'tick'
                     and isinstance(b[1 if b[0] == 'push' else 2],
                                    (tuple, list)))
                    for b in last[1]))}


def seq_alphabet():
    S1, SB, SB2 = ('set', 'a', 1, None, None), ('set', 'a', BIG, None, None), \
        ('set', 'a', BIGB, 1, 't')
    ops = [S1, SB, SB2, ('set', 'b', BIG, None, 't'),
           ('add', 'a', BIG, None, None), ('incr', 'a', 1, 0),
           ('pop', 'a', 0), ('delete', 'a'), ('touch', 'a', 1),
           ('push', BIG, None, 'back', None, None), ('pull', None, 'front', 0),
           ('peek', None, 'back', 0), ('clear',), ('evict', 't'), ('expire',),
           ('cull',), ('tick', 1)]
    for raises in (False, True):
        ops += [('block', (SB,), raises), ('block', (S1, SB), raises),
                ('block', (('delete', 'a'),), raises),
                ('block', (('pop', 'a', 0), SB), raises),
                ('block', (('push', BIG, None, 'back', None, None),
                           ('pull', None, 'front', 0)), raises),
                ('block', (SB, ('set', 'b', 2, None, None)), raises)]
    return ops


def work(unit):
    kind = unit[0]
    if kind == 'fault':
        return fault_unit(unit)
    if kind == 'bfs':
        _, settings, depth, seed, cap, chunk, nch = unit
        ab = run.shuffled(seq_alphabet(), seed, 'c08')
        part = seq.bfs(lambda: AuditWorld(settings), ab, depth,
                       allow=c03.allow_ticks(2), label='audit', time_cap=cap,
                       first=ab[chunk::nch])
        part['label'] = 'bfs/audit'
        return part
    _, programs, init, mode, settings, bound, cap = unit

    class AuditScenario(CacheScenario):
        def check(self, ex):
            bad = Snapshot(self.dir).audit()
            return [('bookkeeping', '; '.join(bad[:4]))] if bad else []

    part = sched.explore(
        lambda: AuditScenario(programs, c05.INITS[init], mode, settings),
        bound=bound, por=True, time_cap=cap)
    part['label'] = 'sched'
    return part


def main(tier, seed):
    rep = run.Report('C08', tier, seed, TECHNIQUE)
    cap = 200 if tier == 'quick' else 3000
    units = []
    setts = [MFS] if tier == 'quick' else [
        MFS, dict(MFS, statistics=1, eviction_policy='least-recently-used'),
        dict(MFS, cull_limit=0)]
    for st in setts:
        for op, inits in OPS:
            for init in inits:
                units.append(('fault', st, init, op, None))
        for special in ('surrogate', 'surrogate-add', 'unpicklable',
                        'unpicklable-push', 'badkey-set', 'badkey-setitem',
                        'badkey-add', 'badkey-incr', 'badkey-touch',
                        'badkey-pop', 'badkey-set-read'):
            units.append(('fault', st, 'file', None, special))
    depth = 2 if tier == 'quick' else 3
    for ch in range(4):
        units.append(('bfs', MFS, depth, seed, cap, ch, 4))
    plan = c05.plan(tier)
    step = 6 if tier == 'quick' else 2
    filey = {'set', 'set_chunks', 'add', 'pop', 'delete', 'touch'}
    chosen = []
    for i, u in enumerate(plan):
        programs, init, mode, settings, bound = u
        ops = [op[0] for p in programs for op in p]
        both_file = len(programs) == 2 and all(o in filey for o in ops) \
            and mode == 'own' and init in ('file', 'absent')
        if both_file or i % step == 0:
            chosen.append(u)
    for programs, init, mode, settings, bound in chosen:
        units.append(('sched', programs, init, mode, settings, bound, cap))
    units = run.shuffled(units, seed)
    for part in run.pmap(work, units):
        rep.merge(part, part.get('label'))
    rep.bounds = {
        'fault': '%d (operation, initial state) cases x every event position '
                 '(one failure per execution) + unencodable values'
                 % sum(len(i) for _, i in OPS),
        'bfs': 'depth %d over %d operations incl. committing and aborting '
               'transaction blocks' % (depth, len(seq_alphabet())),
        'sched': 'every %dth scenario of the C05 plan, all interleavings, '
                 'audit at the end' % step,
    }
    rep.assumptions = [
        'a failure injected into a file removal leaves a file the library '
        'cannot delete: unreferenced-file reports are waived for that fault '
        'only',
        'an injected statement failure leaves the transaction open (the '
        'library rolls back); a failing COMMIT is a real ROLLBACK + error',
    ]
    return run.finish(rep, level='model_checking')


def replay(rp):
    run._worker_init()
    unit = rp['unit']
    _, settings, init, op, special = unit
    plan = rp.get('plan')
    outcome, problems, log, fired = run_case(
        settings if isinstance(settings, dict) else {}, init,
        tuple(op) if op else None, tuple(plan) if plan else None, special)
    for i, e in enumerate(log):
        print('%3d %r%s' % (i, e, '   <-- fault' if plan and i == plan[0]
                            else ''))
    print('outcome:', outcome)
    if problems:
        print('REPRODUCED:', problems)
        return 1
    print('not reproduced')
    return 0
