"""C03 - a single client sees an exact dictionary with expiry, tags and
statistics.  SEQ slices (BFS with state dedup) + exhaustive population sweep
across the 100-row page size."""
from .. import run, seq
from ..worlds import CacheWorld

TECHNIQUE = ('explicit-state BFS over API histories of the real Cache, each '
             'transition compared with a reference dictionary; exhaustive '
             'population sweep 0..210 for paged operations')

BIG = ('$T', 12)      # text >= disk_min_file_size(8) -> value file
BIGB = ('$B', 12)     # bytes -> binary value file (read handles)
BIGP = ('$P', 12)     # tuple -> pickled value file

POLICIES = ('least-recently-stored', 'least-recently-used',
            'least-frequently-used', 'none')


def core(keys=('a', 'b'), values=(1, BIG)):
    ops = []
    for k in keys:
        for v in values:
            ops.append(('set', k, v, None, None))
        ops.append(('get', k, 0))
        ops.append(('delete', k))
    return ops


def slice_expiry():
    ops = core(values=(1,))
    ops += [('set', 'a', 5, 1, 't'), ('set', 'a', BIG, 2, None),
            ('set', 'b', 7, 1, 'u'), ('set', 'a', 6, 0, None),
            ('add', 'a', 2, None, None), ('add', 'a', 3, 1, 't'),
            ('add', 'b', BIG, 2, None),
            ('get', 'a', 6), ('touch', 'a', None), ('touch', 'a', 1),
            ('touch', 'b', 2), ('incr', 'a', 1, 0), ('incr', 'a', 1, None),
            ('pop', 'a', 2), ('contains', 'a'), ('contains', 'b'),
            ('delitem', 'a'), ('expire',), ('cull',), ('len',), ('keys',),
            ('peekitem', True, 2), ('peekitem', False, 0),
            ('tick', 1)]
    return ops


def slice_tags():
    ops = core(values=(1,))
    ops += [('set', 'a', 1, None, 't'), ('set', 'a', BIG, None, 'u'),
            ('set', 'b', 2, None, 't'), ('set', 'b', BIGP, None, None),
            ('add', 'a', 3, None, 't'), ('add', 'b', 3, None, 'u'),
            ('get', 'a', 4), ('get', 'b', 6), ('pop', 'a', 4),
            ('pop', 'b', 6), ('incr', 'a', 1, 0), ('touch', 'a', 1),
            ('evict', 't'), ('evict', 'u'), ('evict', None), ('clear',),
            ('peekitem', True, 4), ('len',), ('keys',)]
    return ops


def slice_stats():
    ops = core(keys=('a',), values=(1, BIGB))
    ops += [('stats', True, False), ('stats', False, False),
            ('stats', True, True)]
    ops += [('get', 'a', bits) for bits in range(1, 9)]
    ops += [('get', 'b', 0), ('getitem', 'a'), ('getitem', 'b'),
            ('read', 'a'), ('read', 'b'), ('contains', 'a'),
            ('pop', 'a', 0), ('incr', 'a', 1, 0), ('set', 'a', 1, 1, None),
            ('tick', 1)]
    return ops


def slice_counters():
    ops = core(values=(1,))
    ops += [('incr', 'a', 1, 0), ('incr', 'a', -2, 5), ('incr', 'a', 1, None),
            ('incr', 'b', 3, 0), ('decr', 'a', 1, 0), ('decr', 'a', 2, None),
            ('set', 'a', 1.5, None, None), ('set', 'a', 2 ** 62, None, None),
            ('add', 'a', 10, None, None), ('add', 'b', 20, None, None),
            ('pop', 'a', 0), ('pop', 'a', 8), ('pop', 'b', 14),
            ('delitem', 'a'), ('delitem', 'b'), ('getitem', 'a'),
            ('setitem', 'a', 3), ('setitem', 'b', BIG), ('len',), ('clear',)]
    return ops


def slice_order():
    keys = ('a', 'b', 1, 2.5, b'a')
    ops = []
    for k in keys:
        ops.append(('set', k, 1, None, None))
        ops.append(('delete', k))
    ops += [('set', 'a', BIG, None, None), ('set', 1.0, 2, None, None),
            ('setitem', (1, 'x'), 3), ('delete', (1, 'x')),
            ('get', 1, 0), ('get', 1.0, 0), ('pop', 'b', 0),
            ('keys',), ('rkeys',), ('iterkeys', False), ('iterkeys', True),
            ('peekitem', True, 0), ('peekitem', False, 0), ('len',)]
    return ops


def slice_combined():
    seen, ops = set(), []
    for s in (slice_expiry, slice_tags, slice_stats, slice_counters,
              slice_order):
        for op in s():
            if repr(op) not in seen:
                seen.add(repr(op))
                ops.append(op)
    return ops


SLICES = {
    'expiry': slice_expiry, 'tags': slice_tags, 'stats': slice_stats,
    'counters': slice_counters, 'order': slice_order,
    'combined': slice_combined,
}


def settings_for(policy, statistics, tag_index, mfs):
    return {'eviction_policy': policy, 'statistics': statistics,
            'tag_index': tag_index, 'disk_min_file_size': mfs}


def plan(tier):
    """[(label, slice, settings, depth, ticks)]"""
    units = []
    if tier == 'quick':
        grid = [
            ('expiry', 'least-recently-stored', 0, 0, 8, 3),
            ('expiry', 'least-recently-used', 1, 0, 8, 3),
            ('tags', 'least-recently-stored', 0, 1, 8, 3),
            ('tags', 'least-frequently-used', 0, 0, 8, 3),
            ('tags', 'none', 0, 0, 2 ** 15, 3),
            ('stats', 'least-recently-stored', 1, 0, 8, 3),
            ('stats', 'least-frequently-used', 0, 0, 8, 3),
            ('stats', 'least-recently-used', 1, 1, 8, 3),
            ('counters', 'least-recently-stored', 0, 0, 8, 3),
            ('counters', 'least-recently-used', 1, 0, 2 ** 15, 3),
            ('order', 'least-recently-stored', 0, 0, 8, 3),
            ('order', 'none', 1, 1, 8, 3),
            ('combined', 'least-recently-stored', 0, 0, 8, 2),
            ('combined', 'least-recently-used', 1, 1, 8, 2),
            ('combined', 'least-frequently-used', 1, 0, 2 ** 15, 2),
            ('combined', 'none', 0, 1, 8, 2),
        ]
        for name, pol, st, ti, mfs, depth in grid:
            units.append((name, settings_for(pol, st, ti, mfs), depth, 3))
    else:
        for name in ('expiry', 'tags', 'stats', 'counters', 'order'):
            for pol in POLICIES:
                for st in (0, 1):
                    for ti in (0, 1):
                        for mfs in (8, 2 ** 15):
                            units.append((name, settings_for(pol, st, ti, mfs),
                                          4, 3))
        for pol in POLICIES:
            for st in (0, 1):
                units.append(('combined', settings_for(pol, st, st, 8), 3, 3))
    return units


def allow_ticks(budget):
    def allow(hist, op):
        if op[0] != 'tick':
            return True
        return sum(1 for h in hist if h[0] == 'tick') < budget
    return allow


def work(unit):
    kind = unit[0]
    if kind == 'bfs':
        _, name, settings, depth, ticks, seed, cap = unit
        alphabet = run.shuffled(SLICES[name](), seed, name)
        part = seq.bfs(lambda: CacheWorld(settings), alphabet, depth,
                       allow=allow_ticks(ticks), label=name, time_cap=cap)
        part['label'] = 'bfs/' + name
        return part
    if kind == 'sweep':
        from .sweep import sweep_unit
        return sweep_unit(unit)
    raise ValueError(unit)


def main(tier, seed):
    rep = run.Report('C03', tier, seed, TECHNIQUE)
    units = [('bfs', name, settings, depth, ticks, seed,
              120 if tier == 'quick' else 1500)
             for name, settings, depth, ticks in plan(tier)]
    from .sweep import sweep_units
    units += sweep_units('C03', tier)
    units = run.shuffled(units, seed)
    for unit, part in zip(units, run.pmap(work, units)):
        rep.merge(part, part.get('label'))
    rep.bounds = {
        'bfs': 'every history over each slice alphabet up to the depth given '
               'in parts, from every reachable state (dedup by canonical '
               'directory state); clock <= 3 ticks',
        'sweep': 'every population size 0..210 x shape x paged operation',
        'units': len(units),
    }
    rep.assumptions = [
        'keys/values outside the slice alphabets are not explored',
        'the virtual clock is constant inside one call',
        'an item whose expire time equals the current time counts as expired '
        '(as get/contains/pop/delete/touch/add decide); expire()/lazy culling '
        'may or may not remove it at that exact instant',
    ]
    return run.finish(rep)
