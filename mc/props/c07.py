"""C07 - a process killed at any instant leaves a usable, self-consistent
cache.

CRASH: for every workload (every mutating Cache method over inline and
file-backed values, bulk removals, a transaction block, Deque and Index
operations) a forked worker is SIGKILLed right before every event (SQL
statement, file create / write chunk / close / remove, directory create /
remove); a handle opened before the kill and handles opened after it then
check the recovery contract."""
import collections
import copy
import os
import shutil
import warnings

from .. import run
from ..alpha import Snapshot
from ..crash import finish_child, run_child
from ..env import ENV
from ..spec import Raises, SpecCache, same
from ..worlds import call, impl_op, model_op, val

TECHNIQUE = ('exhaustive enumeration of kill points (real SIGKILL of a forked '
             'worker before every database statement and file-system '
             'operation) x workloads, recovery judged against the reference '
             'model of completed operations')

BIG = ('$T', 12)
BIGB = ('$B', 13)
MFS = {'disk_min_file_size': 8}
BULK = {'clear', 'evict', 'expire', 'cull'}
SYSCALL_CORE = {'set-file-over-file', 'pop-file', 'push-pull', 'clear',
                'block-two-writes', 'incr', 'delete-file', 'lazy-cull'}


def cache_workloads():
    S = lambda k, v, e=None, t=None: ('set', k, v, e, t)   # noqa: E731
    three = [S('x', BIG, None, 't'), S('y', BIGB, 1, 't'), S('z', ('$T', 14)),
             ('tick', 2)]
    W = []
    W.append(('set-file-absent', [], [S('a', BIG)]))
    W.append(('set-file-over-file', [S('a', ('$T', 13))], [S('a', BIG)]))
    W.append(('set-inline-over-file', [S('a', ('$T', 13))], [S('a', 1)]))
    W.append(('set-file-over-inline', [S('a', 1)], [S('a', BIGB)]))
    W.append(('set-chunks', [S('a', 1)],
              [('set_chunks', 'a', (b'xxxxxx', b'yyyyyy'), None, None)]))
    W.append(('add-file', [], [('add', 'a', BIG, None, None)]))
    W.append(('add-over-expired', [S('a', BIGB, 1), ('tick', 2)],
              [('add', 'a', BIG, None, None)]))
    W.append(('incr', [S('n', 5)], [('incr', 'n', 1, 0), ('incr', 'm', 1, 0)]))
    W.append(('touch', [S('a', BIG, 5)], [('touch', 'a', 50)]))
    W.append(('pop-file', [S('a', BIG), S('b', 1)], [('pop', 'a', 0)]))
    W.append(('delete-file', [S('a', BIG), S('b', 1)], [('delete', 'a')]))
    W.append(('set-then-pop', [], [S('a', BIG), ('pop', 'a', 0)]))
    W.append(('push-pull', [], [('push', BIG, None, 'back', None, None),
                                ('push', 2, None, 'back', None, None),
                                ('pull', None, 'front', 0)]))
    W.append(('peek-expired-head', [('push', BIGB, None, 'back', 1, None),
                                    ('push', BIG, None, 'back', None, None),
                                    ('tick', 2)],
              [('peek', None, 'front', 0)]))
    W.append(('lazy-cull', [S('e', BIGB, 1), ('tick', 2)], [S('a', BIG)]))
    W.append(('clear', three, [('clear',)]))
    W.append(('evict', three, [('evict', 't')]))
    W.append(('expire', three, [('expire',)]))
    W.append(('cull', three, [('cull',)]))
    many = [S('k%02d' % i, ('$B', 12 + i % 3)) for i in range(13)]
    W.append(('cull-evicts', many + [S('n', 1), ('reset', 'cull_limit', 0),
                              ('reset', 'size_limit', 0)],
              [('cull', 'all')]))
    W.append(('block-two-writes', [S('a', 1)],
              [('block', (S('a', BIG), S('b', BIGB)), False)]))
    W.append(('block-replace-file', [S('a', ('$T', 13)), S('b', BIGB)],
              [('block', (S('a', BIG), ('delete', 'b')), False)]))
    W.append(('block-pop-file', [S('a', BIG), S('b', 1)],
              [('block', (('pop', 'a', 0), S('b', BIGB)), False)]))
    W.append(('block-inline', [S('a', 1)],
              [('block', (S('a', 2), ('incr', 'n', 1, 0)), False)]))
    return W


def do_cache_op(cache, op):
    if op[0] == 'block':
        with cache.transact():
            for b in op[1]:
                impl_op(cache, b)
        return None
    if op[0] == 'cull':
        return impl_op(cache, ('cull',))
    return impl_op(cache, op)


def model_cache_op(spec, op):
    if op[0] == 'block':
        for b in op[1]:
            model_op(spec, b)
        return None
    if op[0] == 'cull' and len(op) > 1 and op[1] == 'all':
        # explicit cull() of a cache whose size limit is 0: evicts in pages
        # of 10 until nothing is left
        gone = list(spec.items)
        spec.forget(gone)
        return len(gone)
    if op[0] in ('expire', 'cull'):
        dead = spec.expired_keys(strict=False)
        spec.forget(dead)
        return len(dead)
    r = model_op(spec, op)
    if spec.culls:
        spec.forget(spec.expired_keys(strict=True))
    return r


def seq_workloads():
    """(name, kind, maxlen, init items, program)"""
    W = []
    W.append(('deque-append', 'deque', None, [1], [('append', BIG)]))
    W.append(('deque-append-maxlen', 'deque', 2, [1, BIG],
              [('append', BIGB)]))
    W.append(('deque-appendleft-maxlen', 'deque', 2, [BIG, 1],
              [('appendleft', 0)]))
    W.append(('deque-pop', 'deque', None, [1, BIG], [('pop',)]))
    W.append(('deque-popleft', 'deque', None, [BIG, 1], [('popleft',)]))
    W.append(('deque-rotate', 'deque', None, [1, BIG, 3], [('rotate', 1)]))
    W.append(('deque-reverse', 'deque', None, [1, BIG, 3], [('reverse',)]))
    W.append(('deque-setitem', 'deque', None, [BIG, 1],
              [('setitem', 0, BIGB)]))
    W.append(('deque-delitem', 'deque', None, [BIG, 1], [('delitem', 0)]))
    W.append(('deque-maxlen', 'deque', None, [1, BIG, 3], [('maxlen', 1)]))
    W.append(('index-setitem', 'index', None, [('a', BIG)],
              [('set', 'a', BIGB), ('set', 'b', 1)]))
    W.append(('index-pop', 'index', None, [('a', BIG), ('b', 1)],
              [('pop', 'a')]))
    W.append(('index-popitem', 'index', None, [('a', 1), ('b', BIG)],
              [('popitem', True)]))
    W.append(('index-setdefault', 'index', None, [('a', 1)],
              [('setdefault', 'z', BIG)]))
    W.append(('index-del', 'index', None, [('a', BIG), ('b', 1)],
              [('del', 'a')]))
    return W


def lib_check(obj, fix=False):
    import diskcache
    with warnings.catch_warnings():
        warnings.simplefilter('always')
        try:
            warns = obj.check(fix=fix)
        except Exception as exc:
            return ['raised %s: %s' % (type(exc).__name__, exc)], []
    hard = [str(w.message) for w in warns
            if not issubclass(w.category, (diskcache.EmptyDirWarning,
                                           diskcache.UnknownFileWarning))]
    soft = [str(w.message) for w in warns
            if issubclass(w.category, (diskcache.EmptyDirWarning,
                                       diskcache.UnknownFileWarning))]
    return hard, soft


def cache_case(name, init, program, tier):
    import diskcache as dc
    part = {'states': 0, 'transitions': 0, 'executions': 0, 'violations': [],
            'outcomes': {}, 'samples': [], 'caps': [],
            'label': 'crash/cache'}
    tmpl = run.fresh_dir('ct')
    ENV.reset(run.scratch())
    c = dc.Cache(tmpl, **MFS)
    spec0 = SpecCache(min_file_size=8, clock=lambda: ENV.now)
    now0 = ENV.now
    for op in init:
        if op[0] == 'tick':
            ENV.now += op[1]
            continue
        if op[0] == 'reset':
            c.reset(op[1], op[2])    # e.g. shrink the size limit afterwards
            continue
        impl_op(c, op)
        model_op(spec0, op)
    c.close()
    now1 = ENV.now
    specs = [spec0]
    for op in program:
        s = copy.deepcopy(specs[-1])
        s.culls = False
        model_cache_op(s, op)
        specs.append(s)

    def attempt(at, sys_at=None):
        d = run.fresh_dir('cw')
        shutil.copytree(tmpl, d)
        ENV.reset(run.scratch(), now1)
        ENV.names = {0: 1000}     # do not reuse the template's file names

        def work(journal):
            cache = dc.Cache(d)
            for i, op in enumerate(program):
                do_cache_op(cache, op)
                journal(i)
            cache.close()

        pid, w_go, r_j = run_child(work, at, sys_at, d)
        survivor = dc.Cache(d, timeout=0)
        survivor.get('warm-up')
        os.write(w_go, b'g')
        os.close(w_go)
        completed, log, killed, failed = finish_child(pid, r_j)
        return d, survivor, completed, log, killed, failed

    d, survivor, completed, log, killed, failed = attempt(None)
    survivor.close()
    run.drop(d)
    if failed or log is None:
        raise RuntimeError('baseline worker failed for %s' % name)
    part['states'] = len(log)
    part['executions'] += 1

    level = ['event']

    def bad(at, clause, msg):
        where = tuple(log[at]) if level[0] == 'event' and at < len(log) \
            else 'system call'
        part['violations'].append({
            'signature': {'clause': clause, 'workload': name},
            'message': '%s: workload %s killed before %s %d %r: %s' % (
                clause, name, level[0], at, where, msg),
            'replay': {'engine': 'CRASH', 'module': 'props.c07',
                       'workload': name, 'at': at, 'level': level[0]}})

    points = [('event', at) for at in range(len(log))]
    from ..crash import finish_child as _fc, shim
    if shim() is not None and (tier == 'thorough' or name in SYSCALL_CORE):
        d, survivor, completed, _, killed, failed = attempt(None, -1)
        survivor.close()
        run.drop(d)
        nsys = _fc.syscalls or 0
        part['syscall_points'] = nsys
        points += [('syscall', k) for k in range(nsys)]
    for lvl, at in points:
        level[0] = lvl
        if lvl == 'event':
            d, survivor, completed, _, killed, failed = attempt(at)
        else:
            d, survivor, completed, _, killed, failed = attempt(None, at)
        part['transitions'] += 1
        part['executions'] += 1
        part['states'] += 1 if lvl == 'syscall' else 0
        try:
            if not killed:
                raise RuntimeError('worker was not killed at %s %d (%s)'
                                   % (lvl, at, name))
            ENV.reset(run.scratch(), now1)
            A = specs[completed]
            B = specs[min(completed + 1, len(program))]
            op = program[completed] if completed < len(program) else None
            try:
                snap = Snapshot(d)
            except Exception as exc:
                bad(at, 'database-unusable', 'the directory cannot be read '
                    'after the kill: %s: %s' % (type(exc).__name__, exc))
                part['outcomes']['unusable'] = part['outcomes'].get(
                    'unusable', 0) + 1
                continue
            rows = snap.contents()
            okA = same([tuple(r) for r in rows], [tuple(r) for r in A.rows()])
            okB = same([tuple(r) for r in rows], [tuple(r) for r in B.rows()])
            between = False
            if op is not None and op[0] in BULK:
                ra = [repr(tuple(r)) for r in A.rows()]
                rb = [repr(tuple(r)) for r in B.rows()]
                rr = [repr(tuple(r)) for r in rows]
                between = all(x in ra for x in rr) and all(x in rr for x in rb)
            outcome = 'old' if okA else 'new' if okB else \
                'partial-bulk' if between else 'other'
            part['outcomes'][outcome] = part['outcomes'].get(outcome, 0) + 1
            if outcome == 'other':
                bad(at, 'not-atomic', 'contents %r are neither the state '
                    'before %r nor after %r the interrupted operation %r'
                    % (rows, A.rows(), B.rows(), op))
            unreadable = [r['pykey'] for r in snap.rows if r['verror']]
            if unreadable:
                bad(at, 'present-but-unreadable', 'keys %r are present but '
                    'their value cannot be read: %s'
                    % (unreadable, [r['verror'] for r in snap.rows
                                    if r['verror']][:2]))
            try:
                fresh_handle = dc.Cache(d, timeout=0)
            except Exception as exc:
                bad(at, 'database-unusable', 'a fresh handle cannot be opened '
                    'after the kill: %s: %s' % (type(exc).__name__, exc))
                continue
            for who, handle in (('survivor', survivor),
                                ('fresh', fresh_handle)):
                try:
                    for k, v, e, t in rows:
                        if e is not None and e <= ENV.now:
                            continue
                        got = call(handle.get, k, 'MISSING')
                        if not same(got, v) and not unreadable:
                            bad(at, 'lookup-wrong', '%s handle: get(%r) -> %r, '
                                'stored %r' % (who, k, got, v))
                    hard, soft = lib_check(handle)
                    if hard:
                        bad(at, 'check-reports', '%s handle: check() reports '
                            '%r' % (who, hard[:3]))
                    wrote = call(handle.set, 'probe-' + who, 1)
                    if wrote is not True:
                        bad(at, 'cannot-write', '%s handle: set after the kill '
                            '-> %r' % (who, wrote))
                finally:
                    if who == 'fresh':
                        handle.close()
            try:
                fixer = dc.Cache(d, timeout=0)
            except Exception as exc:
                bad(at, 'database-unusable', 'cannot reopen: %r' % (exc,))
                continue
            try:
                lib_check(fixer, fix=True)
                hard, soft = lib_check(fixer)
                if hard or soft:
                    bad(at, 'repair-incomplete', 'after check(fix=True) a '
                        'second check() reports %r' % ((hard + soft)[:3],))
            finally:
                fixer.close()
        finally:
            try:
                survivor.close()
            except Exception:
                pass
            run.drop(d)
    part['samples'].append({'workload': name, 'program': [list(o) for o in program],
                            'kill_points': len(log),
                            'events': [list(e) for e in log[:14]]})
    run.drop(tmpl)
    return part


def seq_case(name, kind, maxlen, items, program):
    import diskcache as dc
    from .c11 import seq_op
    from .c12 import map_op, small_files
    part = {'states': 0, 'transitions': 0, 'executions': 0, 'violations': [],
            'outcomes': {}, 'samples': [], 'caps': [],
            'label': 'crash/' + kind}
    tmpl = run.fresh_dir('ct')
    ENV.reset(run.scratch())
    small_files(tmpl)
    if kind == 'deque':
        obj = dc.Deque([val(x) for x in items], directory=tmpl, maxlen=maxlen)
        ref0 = collections.deque([val(x) for x in items], maxlen)
    else:
        pairs = [(k, val(v)) for k, v in items]
        obj = dc.Index(tmpl, pairs)
        ref0 = collections.OrderedDict(pairs)
    obj.cache.close()

    def open_obj(d):
        if kind == 'deque':
            return dc.Deque(directory=d, maxlen=maxlen)
        return dc.Index(d)

    def do(o, op, is_ref):
        if kind == 'deque':
            if op[0] == 'maxlen':
                if is_ref:
                    return collections.deque(o, op[1])
                o.maxlen = op[1]
                return None
            return seq_op(o, op, is_ref)
        return map_op(o, op, is_ref)

    refs = [ref0]
    for op in program:
        r = copy.deepcopy(refs[-1])
        out = do(r, op, True)
        if isinstance(out, collections.deque):
            r = out
        refs.append(r)

    def view(x):
        return list(x) if kind == 'deque' else list(x.items())

    def deep_view(x, is_ref):
        """Everything a user can see of the recovered object, including how
        it behaves when it is used again (the ends, the length and later
        insertions rely on key ranges that plain iteration does not)."""
        if kind == 'deque':
            n = len(x)
            if is_ref:
                ends = (x[0], x[-1]) if n else None
            else:
                ends = (x.peekleft(), x.peek()) if n else None
            out = [list(x), n, ends, list(reversed(x))]
            x.append('q')
            x.appendleft('p')
            out.append(list(x))
            for take in (x.popleft, x.pop):
                try:
                    out.append(take())
                except IndexError:
                    out.append('IndexError')
            out.append(list(x))
            return out
        n = len(x)
        if is_ref:
            ends = (next(iter(x.items())), next(reversed(x.items()))) \
                if n else None
        else:
            ends = (x.peekitem(last=False), x.peekitem(last=True)) \
                if n else None
        out = [list(x.items()), n, ends, list(reversed(x))]
        x['zz'] = 1
        out.append(list(x.items()))
        out.append(x.popitem())
        out.append(list(x.items()))
        return out

    def attempt(at):
        d = run.fresh_dir('cw')
        shutil.copytree(tmpl, d)
        ENV.reset(run.scratch())
        ENV.names = {0: 1000}

        def work(journal):
            o = open_obj(d)
            for i, op in enumerate(program):
                do(o, op, False)
                journal(i)
            o.cache.close()

        pid, w_go, r_j = run_child(work, at)
        survivor = open_obj(d)
        len(survivor)
        os.write(w_go, b'g')
        os.close(w_go)
        completed, log, killed, failed = finish_child(pid, r_j)
        return d, survivor, completed, log, killed, failed

    d, survivor, completed, log, killed, failed = attempt(None)
    survivor.cache.close()
    run.drop(d)
    if failed or log is None:
        raise RuntimeError('baseline worker failed for %s' % name)
    part['states'] = len(log)
    part['executions'] += 1
    for at in range(len(log)):
        d, survivor, completed, _, killed, failed = attempt(at)
        part['transitions'] += 1
        part['executions'] += 1
        try:
            ENV.reset(run.scratch())
            A, B = refs[completed], refs[min(completed + 1, len(program))]
            fresh = open_obj(d)
            problems = []
            for who, h in (('survivor', survivor), ('fresh', fresh)):
                got = call(view, h)
                if not (same(got, view(A)) or same(got, view(B))):
                    problems.append(('not-atomic', '%s handle sees %r, expected '
                                     '%r (before) or %r (after %r)'
                                     % (who, got, view(A), view(B),
                                        program[min(completed,
                                                    len(program) - 1)])))
                    break
            hard, soft = lib_check(fresh.cache)
            if hard:
                problems.append(('check-reports', 'check() reports %r'
                                 % (hard[:3],)))
            outcome = 'other' if problems else (
                'old' if same(call(view, fresh), view(A)) else 'new')
            part['outcomes'][outcome] = part['outcomes'].get(outcome, 0) + 1
            if not problems:
                got = call(deep_view, fresh, False)
                # the reopened Deque has the constructor's maxlen again
                wants = [deep_view(collections.deque(r, maxlen)
                                   if kind == 'deque' else copy.deepcopy(r),
                                   True) for r in (A, B)]
                if not any(same(got, w) for w in wants):
                    problems.append((
                        'recovered-object-misbehaves',
                        'contents look right but [items, len, ends, reversed, '
                        'after insert at both ends, removed ends, rest] = %r; '
                        'expected %r or %r' % (got, wants[0], wants[1])))
            fresh.cache.close()
            for clause, msg in problems:
                part['violations'].append({
                    'signature': {'clause': clause, 'workload': name},
                    'message': '%s: workload %s killed before event %d %r: %s'
                               % (clause, name, at, tuple(log[at]), msg),
                    'replay': {'engine': 'CRASH', 'module': 'props.c07',
                               'workload': name, 'at': at}})
        finally:
            try:
                survivor.cache.close()
            except Exception:
                pass
            run.drop(d)
    part['samples'].append({'workload': name, 'kill_points': len(log)})
    run.drop(tmpl)
    return part


def create_case():
    """Kill inside the first-ever open of a new directory (schema, settings,
    triggers are created statement by statement), then reopen and use it."""
    import diskcache as dc
    part = {'states': 0, 'transitions': 0, 'executions': 0, 'violations': [],
            'outcomes': {}, 'samples': [], 'caps': [],
            'label': 'crash/create'}
    value = val(BIG)

    def attempt(at):
        d = run.fresh_dir('cn')
        ENV.reset(run.scratch())

        def work(journal):
            cache = dc.Cache(d, **MFS)
            journal(0)
            cache.set('a', value)
            journal(1)
            cache.set('n', 1)
            journal(2)
            cache.close()

        pid, w_go, r_j = run_child(work, at)
        os.write(w_go, b'g')
        os.close(w_go)
        return (d,) + finish_child(pid, r_j)

    d, completed, log, killed, failed = attempt(None)
    run.drop(d)
    if failed or log is None:
        raise RuntimeError('baseline worker failed for first-open')
    part['states'] = len(log)
    for at in range(len(log)):
        d, completed, _, killed, failed = attempt(at)
        part['transitions'] += 1
        part['executions'] += 1
        problems = []
        try:
            ENV.reset(run.scratch())
            ENV.names = {0: 1000}
            try:
                cache = dc.Cache(d, timeout=0)
            except Exception as exc:
                problems.append(('cannot-open', 'reopening raised %s: %s'
                                 % (type(exc).__name__, exc)))
                cache = None
            if cache is not None:
                try:
                    have = {k: call(cache.get, k) for k in ('a', 'n')}
                    want_a = value if completed >= 2 else (value, None)
                    if completed >= 2 and not same(have['a'], value):
                        problems.append(('lost-completed', 'completed set is '
                                         'gone: get(a) -> %r' % (have['a'],)))
                    if have['a'] not in (None, value):
                        problems.append(('lookup-wrong', 'get(a) -> %r'
                                         % (have['a'],)))
                    r = call(cache.set, 'probe', val(BIGB))
                    if r is not True:
                        problems.append(('cannot-write', 'set -> %r' % (r,)))
                    r = call(cache.delete, 'probe')
                    n = call(len, cache)
                    rows = len(Snapshot(d).rows)
                    if n != rows:
                        problems.append(('count-drift', 'len() %r but %d rows'
                                         % (n, rows)))
                    hard, soft = lib_check(cache)
                    if hard:
                        problems.append(('check-reports', 'check() reports %r'
                                         % (hard[:3],)))
                    bad = Snapshot(d).audit()
                    bad = [b for b in bad if 'unreferenced' not in b]
                    if bad:
                        problems.append(('bookkeeping', '; '.join(bad[:3])))
                finally:
                    cache.close()
            k = 'ok' if not problems else problems[0][0]
            part['outcomes'][k] = part['outcomes'].get(k, 0) + 1
            for clause, msg in problems:
                part['violations'].append({
                    'signature': {'clause': clause, 'workload': 'first-open'},
                    'message': '%s: first open killed before event %d %r: %s'
                               % (clause, at, tuple(log[at]), msg),
                    'replay': {'engine': 'CRASH', 'module': 'props.c07',
                               'workload': 'first-open', 'at': at}})
        finally:
            run.drop(d)
    part['samples'].append({'workload': 'first-open', 'kill_points': len(log)})
    return part


def work(unit):
    if unit[0] == 'create':
        return create_case()
    if unit[0] == 'cache':
        _, name, init, program, tier = unit
        return cache_case(name, init, program, tier)
    _, name, kind, maxlen, items, program = unit
    return seq_case(name, kind, maxlen, items, program)


def main(tier, seed):
    rep = run.Report('C07', tier, seed, TECHNIQUE)
    units = [('cache', n, i, p, tier) for n, i, p in cache_workloads()]
    units += [('seq',) + w for w in seq_workloads()]
    units.append(('create',))
    units = run.shuffled(units, seed)
    for part in run.pmap(work, units):
        rep.merge(part, part.get('label'))
    from ..crash import shim
    rep.notes.append('syscall-level kill shim %s' % (
        'active' if shim() is not None else
        'NOT active (run ./setup.sh): shim-level kill points only'))
    rep.bounds = {
        'workloads': len(units),
        'syscall_level': 'with the LD_PRELOAD shim: additionally a kill '
                         'before every write-class system call (write, '
                         'pwrite64, fsync, fdatasync, ftruncate, unlink, '
                         'rename, mkdir, rmdir) below the cache directory, '
                         'i.e. inside SQLite\'s commit, for %s workloads'
                         % ('all Cache' if tier == 'thorough'
                            else '%d core' % len(SYSCALL_CORE)),
        'kill_points': 'before every SQL statement and every file create / '
                       'write chunk / close / remove / mkdir / rmdir of the '
                       'whole program (states = events per workload)',
    }
    rep.assumptions = [
        'kills land on shim-level event boundaries; instants inside one '
        'SQLite call or one system call are not enumerated (SQLite\'s own '
        'crash recovery is the trusted base there)',
        'process death, not power loss: everything written before the kill '
        'reaches the file system',
        'extend/update are sequences of single operations: a kill between '
        'two elements is a kill between two operations',
    ]
    return run.finish(rep)


def replay(rp):
    run._worker_init()
    name = rp['workload']
    if name == 'first-open':
        part = create_case()
        hits = [v for v in part['violations'] if v['replay']['at'] == rp['at']]
        for v in hits[:3]:
            print('REPRODUCED:', v['message'])
        return 1 if hits else 0
    for n, i, p in cache_workloads():
        if n == name:
            part = cache_case(n, i, p, 'quick')
            break
    else:
        for w in seq_workloads():
            if w[0] == name:
                part = seq_case(*w)
    hits = [v for v in part['violations'] if v['replay']['at'] == rp['at']]
    for v in hits[:3]:
        print('REPRODUCED:', v['message'])
    return 1 if hits else 0
