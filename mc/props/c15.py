"""C15 - Lock, RLock and BoundedSemaphore exclude across threads/processes.

SCHED: 2-3 contenders run acquire / critical section / release rounds; every
interleaving of their SQL statements, file operations and sleeps is explored
(the visited-state cache absorbs the spin loops).  An independent witness
counter, kept by the harness outside the cache, must never exceed the
capacity in any reachable state."""
import shutil

from .. import run, sched
from ..alpha import Snapshot, tree
from ..env import ENV
from ..worlds import call, template
from ..spec import Raises

TECHNIQUE = ('stateless exploration of all interleavings of 2-3 contender '
             'threads (controlled scheduler, visited-state cache); invariant '
             '= independent witness counter of holders')


class LockScenario:
    busy_answers = {}

    def __init__(self, kind, contenders, rounds, value, target, mode, script,
                 label=''):
        self.kind = kind              # lock | rlock | semaphore | barrier
        self.n = contenders
        self.rounds = rounds
        self.value = value            # semaphore capacity
        self.target = target          # cache | fanout
        self.mode = mode              # own | shared
        self.script = script          # normal | nested | wrong-release
        self.label = label
        self.programs = [self.program(i) for i in range(contenders)]
        self.dir = None

    def program(self, i):
        if self.script == 'nested':
            body = [('acquire',), ('acquire',), ('enter',), ('leave',),
                    ('release',), ('probe',), ('release',)]
        elif self.script == 'wrong-release' and i == 1:
            return [('release',)]
        elif self.kind == 'barrier':
            body = [('call',)]
        elif self.script == 'with':
            body = [('with',)]
        else:
            body = [('acquire',), ('enter',), ('leave',), ('release',)]
        return body * self.rounds

    def describe(self):
        return {'kind': self.kind, 'contenders': self.n, 'rounds': self.rounds,
                'value': self.value, 'target': self.target, 'mode': self.mode,
                'script': self.script}

    def setup(self, ex):
        import diskcache as dc
        self.dir = run.fresh_dir('s')
        if self.target == 'fanout':
            tmpl = template('fanout2', {},
                            lambda p: dc.FanoutCache(p, shards=2).close())
            make = lambda: dc.FanoutCache(self.dir, shards=2)  # noqa: E731
        else:
            tmpl = template('cache', {}, lambda p: dc.Cache(p).close())
            make = lambda: dc.Cache(self.dir)                  # noqa: E731
        shutil.copytree(tmpl, self.dir)
        ENV.reset(self.dir)
        ENV.set_client(0)
        self.holders = 0
        self.max_holders = 0
        self.inside = set()
        self.violations = []
        self.acquired = {}
        shared = make() if self.mode == 'shared' else None
        self.caches = {i + 1: (shared if shared is not None else make()) for i in range(self.n)}
        self.objects = list({id(c): c for c in self.caches.values()}.values())
        cap = self.value if self.kind == 'semaphore' else 1
        self.capacity = cap
        self.locks = {}
        for cid, cache in self.caches.items():
            if self.kind in ('lock', 'barrier'):
                lock = dc.Lock(cache, 'L')
            elif self.kind == 'rlock':
                lock = dc.RLock(cache, 'L')
            else:
                lock = dc.BoundedSemaphore(cache, 'L', value=self.value)
            self.locks[cid] = lock
        if self.kind == 'barrier':
            self.wrapped = {}
            for cid, cache in self.caches.items():
                def make_fn(cid=cid):
                    def critical():
                        self.enter(cid)
                        ENV.hook.before('cs', 'inside')  # a point inside
                        self.leave(cid)
                        return cid
                    return critical
                self.wrapped[cid] = dc.barrier(cache, dc.Lock, name='L')(
                    make_fn())

    def enter(self, cid):
        self.holders += 1
        self.inside.add(cid)
        self.max_holders = max(self.max_holders, self.holders)
        if self.holders > self.capacity:
            self.violations.append(
                ('mutual-exclusion', '%d contenders inside (%r), capacity %d'
                 % (self.holders, sorted(self.inside), self.capacity)))

    def leave(self, cid):
        self.holders -= 1
        self.inside.discard(cid)

    def perform(self, ex, c, op):
        lock = self.locks[c.cid]
        name = op[0]
        if name == 'acquire':
            r = call(lock.acquire)
            self.acquired[c.cid] = self.acquired.get(c.cid, 0) + 1
            return r
        if name == 'release':
            return call(lock.release)
        if name == 'enter':
            self.enter(c.cid)
            ex.before('cs', 'inside')      # scheduling point inside the CS
            return None
        if name == 'leave':
            self.leave(c.cid)
            return None
        if name == 'probe':
            # RLock held once more by me: nobody else may be inside
            return self.holders
        if name == 'call':
            return call(self.wrapped[c.cid])
        if name == 'with':
            # the context-manager form; Lock.locked() while holding it
            def block():
                with lock:
                    self.acquired[c.cid] = self.acquired.get(c.cid, 0) + 1
                    self.enter(c.cid)
                    ex.before('cs', 'inside')
                    seen = lock.locked() if hasattr(lock, 'locked') else None
                    self.leave(c.cid)
                    self.acquired[c.cid] -= 1
                if seen is False:
                    self.violations.append(
                        ('locked-false-while-held', 'Lock.locked() returned '
                         'False inside the with-block of its holder'))
                return seen
            return call(block)
        raise ValueError(op)

    def client_exit(self, ex, c):
        cache = self.caches[c.cid]
        cache.close()

    def teardown(self):
        for obj in getattr(self, 'objects', []):
            try:
                obj.close()
            except Exception:
                pass
        if self.dir:
            run.drop(self.dir)

    def shared_key(self, ex):
        dirs = [self.dir] if self.target == 'cache' else [
            self.dir + '/000', self.dir + '/001']
        snaps = tuple(Snapshot(d).canon() for d in dirs)
        return (snaps, self.holders, tuple(sorted(self.inside)),
                len(self.violations))

    def check(self, ex):
        problems = list(self.violations)
        if self.script == 'wrong-release' and self.kind == 'rlock':
            r = ex.clients[1].results[0][1]
            if not isinstance(r, Raises):
                problems.append(('release-unheld-accepted',
                                 'releasing an RLock held by somebody else or '
                                 'by nobody returned %r' % (r,)))
        if self.script == 'wrong-release' and self.kind == 'semaphore':
            # a semaphore has no owner: refuse only what exceeds the permits
            acq = sum(1 for c in ex.clients for op, r, _, _ in c.results
                      if op[0] == 'acquire' and not isinstance(r, Raises))
            rel = sum(1 for c in ex.clients for op, r, _, _ in c.results
                      if op[0] == 'release' and not isinstance(r, Raises))
            if rel > acq:
                problems.append(('release-unheld-accepted',
                                 '%d releases accepted for %d acquires'
                                 % (rel, acq)))
            return problems
        for c in ex.clients:
            for op, result, _, _ in c.results:
                if op[0] in ('acquire', 'call', 'with') and \
                        isinstance(result, Raises):
                    problems.append(('acquire-raised', '%r -> %r'
                                     % (op, result)))
                if op[0] == 'release' and isinstance(result, Raises) and \
                        not (self.script == 'wrong-release' and c.cid == 2):
                    problems.append(('release-raised', '%r -> %r by client %d'
                                     % (op, result, c.cid)))
        return problems

    def outcome(self, ex):
        return repr((self.max_holders,
                     [len(c.results) for c in ex.clients]))

    def violation(self, ex, problems):
        return {
            'signature': {'clause': problems[0][0], 'kind': self.kind,
                          'script': self.script},
            'message': '%s: %s %r | schedule %r | %s' % (
                problems[0][0], self.kind, self.describe(), ex.trace,
                '; '.join(p[1] for p in problems)[:500]),
            'replay': {'engine': 'SCHED', 'module': 'props.c15',
                       'describe': self.describe(),
                       'schedule': list(ex.trace),
                       'steps': [[cid, repr(p)] for cid, p in ex.steps_log]},
        }


def fork_unit(unit):
    """Separate OS processes (real fork): the parent creates the lock object
    and acquires it; a forked child, using the inherited object or a fresh
    one, must be refused release and must have to wait for acquire; after the
    parent releases the child acquires at once.  A process that would have to
    wait shows up as the library going to sleep (SpinDetected)."""
    import diskcache as dc
    import os
    import pickle
    from ..env import SpinDetected
    _, kind, target, inherited, depth = unit
    part = {'states': 0, 'transitions': 0, 'executions': 0, 'violations': [],
            'outcomes': {}, 'samples': [], 'caps': [], 'label': 'fork/' + kind}
    root = run.fresh_dir('fk')
    ENV.reset(run.scratch())
    ENV.set_client(0)
    if target == 'fanout':
        cache = dc.FanoutCache(root, shards=2)
    else:
        cache = dc.Cache(root)

    def make(c):
        if kind == 'lock':
            return dc.Lock(c, 'L')
        if kind == 'rlock':
            return dc.RLock(c, 'L')
        return dc.BoundedSemaphore(c, 'L', value=1)

    lock = make(cache)
    for _ in range(depth):
        lock.acquire()

    def child(steps):
        r, w = os.pipe()
        pid = os.fork()
        if pid == 0:
            code = 0
            try:
                os.close(r)
                mine = lock if inherited else make(
                    dc.FanoutCache(root, shards=2) if target == 'fanout'
                    else dc.Cache(root))
                out = []
                for step in steps:
                    try:
                        getattr(mine, step)()
                        out.append('ok')
                    except SpinDetected:
                        out.append('waits')
                    except BaseException as exc:
                        out.append(type(exc).__name__)
                os.write(w, pickle.dumps(out))
            except BaseException:
                code = 3
            finally:
                os._exit(code)
        os.close(w)
        data = b''
        while True:
            chunk = os.read(r, 65536)
            if not chunk:
                break
            data += chunk
        os.close(r)
        os.waitpid(pid, 0)
        return pickle.loads(data) if data else ['child-failed']

    def expect(tag, got, want):
        part['transitions'] += 1
        part['executions'] += 1
        part['outcomes'][tag + ':' + ','.join(got)] = 1
        if got != want:
            part['violations'].append({
                'signature': {'clause': 'process-exclusion', 'kind': kind,
                              'step': tag},
                'message': 'process-exclusion: %s on %s (child uses %s '
                           'object, parent holds it %d time(s)): %s: child '
                           'observed %r, expected %r'
                           % (kind, target, 'the inherited' if inherited
                              else 'its own', depth, tag, got, want),
                'replay': {'engine': 'SCHED', 'module': 'props.c15',
                           'fork': list(unit)}})

    try:
        # held by the parent: the child must wait
        expect('acquire-while-held', child(['acquire']), ['waits'])
        if kind == 'rlock':
            expect('release-not-owner', child(['release']),
                   ['AssertionError'])
            expect('release-then-acquire', child(['release', 'acquire']),
                   ['AssertionError', 'waits'])
        for i in range(depth):
            if i < depth - 1:
                lock.release()
                expect('acquire-while-still-held', child(['acquire']),
                       ['waits'])
            else:
                lock.release()
        # free: the child acquires and releases at once
        expect('acquire-when-free', child(['acquire', 'release']),
               ['ok', 'ok'])
        # the child holds it when it dies?  (not part of the property)
        part['states'] = part['transitions']
    finally:
        cache.close()
        run.drop(root)
    return part


SPAWN_SCRIPT = r"""
import base64, pickle, sys, time
sys.path.insert(0, sys.argv[1])
import diskcache as dc

class Waits(BaseException):
    pass

def no_sleep(seconds):
    raise Waits()

time.sleep = no_sleep
mode, kind, directory, blob = sys.argv[2:6]
if mode == 'pickled':
    lock = pickle.loads(base64.b64decode(blob))
else:
    cache = dc.FanoutCache(directory, shards=3)
    key = ('jobs', 'report-123')
    lock = {'lock': dc.Lock, 'rlock': dc.RLock}.get(kind, dc.BoundedSemaphore)(cache, key)
out = []
for step in sys.argv[6:]:
    try:
        getattr(lock, step)()
        out.append('ok')
    except Waits:
        out.append('waits')
    except BaseException as exc:
        out.append(type(exc).__name__)
print(','.join(out))
"""


def spawn_unit(unit):
    """Separately started processes (own interpreter, own hash seed): the
    parent holds a lock whose key is a tuple containing text, on a
    FanoutCache with 3 shards; contenders either rebuild the lock from the
    directory or receive the pickled lock object."""
    import base64
    import diskcache as dc
    import os
    import pickle
    import subprocess
    import sys
    from ..env import REPO
    _, kind = unit
    part = {'states': 0, 'transitions': 0, 'executions': 0, 'violations': [],
            'outcomes': {}, 'samples': [], 'caps': [],
            'label': 'spawn/' + kind}
    root = run.fresh_dir('sp')
    ENV.reset(run.scratch())
    ENV.set_client(0)
    cache = dc.FanoutCache(root, shards=3)
    key = ('jobs', 'report-123')
    cls = {'lock': dc.Lock, 'rlock': dc.RLock}.get(kind, dc.BoundedSemaphore)
    lock = cls(cache, key)
    blob = base64.b64encode(pickle.dumps(lock)).decode()

    def contender(mode, seed, steps):
        env = dict(os.environ, PYTHONHASHSEED=str(seed),
                   PYTHONDONTWRITEBYTECODE='1')
        env.pop('LD_PRELOAD', None)
        out = subprocess.run(
            [sys.executable, '-c', SPAWN_SCRIPT, REPO, mode, kind, root, blob]
            + steps, env=env, capture_output=True, text=True, timeout=120)
        return (out.stdout.strip().split(',') if out.returncode == 0
                else ['child-failed: ' + out.stderr[-200:]])

    def expect(tag, got, want):
        part['transitions'] += 1
        part['executions'] += 1
        part['outcomes'][tag.split('@')[0] + ':' + ','.join(got)] = 1
        if got != want:
            part['violations'].append({
                'signature': {'clause': 'process-exclusion', 'kind': kind,
                              'step': tag.split('@')[0]},
                'message': 'process-exclusion: %s on FanoutCache(3 shards) '
                           'with key %r, %s: contender observed %r, expected '
                           '%r' % (kind, key, tag, got, want),
                'replay': {'engine': 'SCHED', 'module': 'props.c15',
                           'spawn': list(unit)}})

    try:
        lock.acquire()
        for mode in ('rebuilt', 'pickled'):
            for seed in (1, 2, 3):
                expect('%s acquire-while-held@seed%d' % (mode, seed),
                       contender(mode, seed, ['acquire']), ['waits'])
        lock.release()
        for mode in ('rebuilt', 'pickled'):
            expect('%s acquire-when-free' % mode,
                   contender(mode, 4, ['acquire', 'release']), ['ok', 'ok'])
        part['states'] = part['transitions']
    finally:
        cache.close()
        run.drop(root)
    return part


def plan(tier):
    units = []
    kinds = [('lock', 1), ('rlock', 1), ('semaphore', 1), ('semaphore', 2),
             ('barrier', 1)]
    for kind, value in kinds:
        for target in ('cache', 'fanout'):
            for mode in ('own', 'shared'):
                if tier == 'quick' and target == 'fanout' and mode == 'shared':
                    continue
                units.append((kind, 2, 1, value, target, mode, 'normal', None))
        units.append((kind, 2, 2, value, 'cache', 'own', 'normal',
                      3 if tier == 'thorough' else 2))
        units.append((kind, 3, 1, value, 'cache', 'own', 'normal',
                      2 if tier == 'thorough' else 1))
    units.append(('semaphore', 3, 1, 2, 'cache', 'shared', 'normal',
                  2 if tier == 'thorough' else 1))
    if tier == 'thorough':
        units.append(('semaphore', 3, 1, 3, 'cache', 'own', 'normal', 2))
        units.append(('semaphore', 4, 1, 2, 'cache', 'own', 'normal', 1))
        units.append(('lock', 4, 1, 1, 'cache', 'own', 'normal', 1))
        units.append(('rlock', 4, 1, 1, 'cache', 'own', 'normal', 1))
    for mode in ('own', 'shared'):
        for kind, value in (('lock', 1), ('rlock', 1), ('semaphore', 1)):
            units.append((kind, 2, 1, value, 'cache', mode, 'with', None))
        units.append(('rlock', 2, 1, 1, 'cache', mode, 'nested', 3
                      if tier == 'thorough' else 2))
        units.append(('rlock', 2, 1, 1, 'cache', mode, 'wrong-release', None))
        units.append(('semaphore', 2, 1, 1, 'cache', mode, 'wrong-release',
                      None))
    return units


def work(unit):
    if unit[0] == 'fork':
        return fork_unit(unit[:5])
    if unit[0] == 'spawn':
        return spawn_unit(unit[:2])
    kind, n, rounds, value, target, mode, script, bound, cap = unit
    part = sched.explore(
        lambda: LockScenario(kind, n, rounds, value, target, mode, script),
        bound=bound, por=True, time_cap=cap)
    part['label'] = 'sched/%s' % kind
    part['unit'] = repr(unit[:8])
    return part


def main(tier, seed):
    rep = run.Report('C15', tier, seed, TECHNIQUE)
    cap = 240 if tier == 'quick' else 3000
    units = [u + (cap,) for u in plan(tier)]
    for kind in ('lock', 'rlock', 'semaphore'):
        for target in ('cache', 'fanout'):
            for inherited in (True, False):
                for depth in ((1, 2) if kind == 'rlock' else (1,)):
                    units.append(('fork', kind, target, inherited, depth))
    for kind in ('lock', 'rlock', 'semaphore'):
        units.append(('spawn', kind))
    units = run.shuffled(units, seed)
    import os
    for part in run.pmap(work, units):
        rep.merge(part, part.get('label'))
        if os.environ.get('VERIF_DEBUG'):
            print(part['executions'], part['states'], part['unit'])
    rep.bounds = {
        'scenarios': len(units),
        'contenders': '2 (all interleavings, 1 round; 2 rounds with <= 2 '
                      '(quick) / 3 (thorough) preemptions), 3 contenders <= 1 '
                      '/ 2 preemptions, 4 contenders <= 1 (thorough)',
        'spawned': 'separately started interpreters with hash seeds 1..4: '
                   'lock with a tuple key on FanoutCache(3 shards), rebuilt '
                   'from the directory or received as a pickled object',
        'processes': 'real fork: parent holds Lock/RLock(1,2 deep)/Semaphore, '
                     'child with the inherited or its own object must wait / '
                     'be refused release / acquire once free; Cache and '
                     'FanoutCache',
        'kinds': 'Lock, RLock (incl. nested, wrong-party release), '
                 'BoundedSemaphore 1..3, barrier(Lock); Cache and '
                 'FanoutCache(2 shards); shared and own Cache objects',
    }
    rep.assumptions = [
        'time.sleep in spin loops yields to the scheduler; a sleeper is '
        'disabled until another client performs a step',
        'separate processes are represented by separate Cache objects; '
        'os.getpid is constant (owner identity then rests on the thread id)',
    ]
    return run.finish(rep)


def replay(rp):
    if 'spawn' in rp:
        run._worker_init()
        part = spawn_unit(tuple(rp['spawn']))
        for v in part['violations'][:3]:
            print('REPRODUCED:', v['message'])
        return 1 if part['violations'] else 0
    if 'fork' in rp:
        run._worker_init()
        part = fork_unit(tuple(rp['fork']))
        for v in part['violations'][:3]:
            print('REPRODUCED:', v['message'])
        return 1 if part['violations'] else 0
    d = rp['describe']
    sc = LockScenario(d['kind'], d['contenders'], d['rounds'], d['value'],
                      d['target'], d['mode'], d['script'])
    try:
        ex = sched.Execution(sc, list(rp['schedule']), None, None, True).run()
        problems = sc.check(ex)
    finally:
        sc.teardown()
    if problems:
        print('REPRODUCED: %r' % (problems,))
        return 1
    print('not reproduced')
    return 0
