"""C20 - Averager counts every add once; throttle never exceeds its rate.

Averager: SCHED, 2-3 clients x <= 2 of {add(v), get, pop}, all interleavings,
linearizability against (total, count).
Throttle: SCHED with discrete-event virtual time through the public
time_func / sleep_func; 1-3 callers x 2-3 calls, arrival offsets {0, 1/2, 1},
optional spontaneous half ticks; every pair of start instants is checked
against count + rate * elapsed; every call must be let through."""
import itertools
import shutil

from .. import run, sched
from ..alpha import Snapshot
from ..env import ENV, T0
from ..lin import Op, linearize
from ..spec import Raises, same
from ..worlds import call, template

TECHNIQUE = ('stateless exploration of all interleavings (controlled '
             'scheduler, virtual time for throttle) + linearizability / '
             'rate-window oracle')


class AvgSpec:
    def __init__(self):
        self.total = 0.0
        self.count = 0

    def mean(self):
        return None if self.count == 0 else self.total / self.count


def avg_apply(spec, op):
    if op[0] == 'add':
        spec.total += op[1]
        spec.count += 1
        return None
    if op[0] == 'get':
        return spec.mean()
    if op[0] == 'pop':
        m = spec.mean()
        spec.total, spec.count = 0.0, 0
        return m
    raise ValueError(op)


class AveragerScenario:
    busy_answers = {}

    def __init__(self, programs, target='cache', mode='own'):
        self.programs = programs
        self.target = target
        self.mode = mode
        self.dir = None

    def describe(self):
        return {'programs': [[list(o) for o in p] for p in self.programs],
                'target': self.target, 'mode': self.mode}

    def setup(self, ex):
        import diskcache as dc
        self.dir = run.fresh_dir('s')
        if self.target == 'fanout':
            tmpl = template('fanout2', {},
                            lambda p: dc.FanoutCache(p, shards=2).close())
            make = lambda: dc.FanoutCache(self.dir, shards=2)  # noqa: E731
        else:
            tmpl = template('cache', {}, lambda p: dc.Cache(p).close())
            make = lambda: dc.Cache(self.dir)                  # noqa: E731
        shutil.copytree(tmpl, self.dir)
        ENV.reset(self.dir)
        ENV.set_client(0)
        n = len(self.programs)
        shared = make() if self.mode == 'shared' else None
        self.caches = {i + 1: (shared if shared is not None else make()) for i in range(n)}
        self.objects = list({id(c): c for c in self.caches.values()}.values())
        self.avgs = {cid: dc.Averager(c, 'avg')
                     for cid, c in self.caches.items()}

    def perform(self, ex, c, op):
        a = self.avgs[c.cid]
        if op[0] == 'add':
            return call(a.add, op[1])
        return call(getattr(a, op[0]))

    def client_exit(self, ex, c):
        self.caches[c.cid].close()

    def teardown(self):
        for obj in getattr(self, 'objects', []):
            try:
                obj.close()
            except Exception:
                pass
        if self.dir:
            run.drop(self.dir)

    def dirs(self):
        return [self.dir] if self.target == 'cache' else [
            self.dir + '/000', self.dir + '/001']

    def shared_key(self, ex):
        return tuple(Snapshot(d).canon() for d in self.dirs())

    def final_state(self):
        for d in self.dirs():
            for k, v, e, t in Snapshot(d).contents():
                if k == 'avg':
                    return v
        return None

    def check(self, ex):
        ops = []
        for c in ex.clients:
            for i, (op, result, callt, ret) in enumerate(c.results):
                ops.append(Op(c.cid, i, op, result, callt, ret))
        final = self.final_state()

        def final_ok(spec):
            if spec.count == 0:
                return final is None or same(final, (0.0, 0))
            return final is not None and abs(final[0] - spec.total) < 1e-9 \
                and final[1] == spec.count
        order = linearize(AvgSpec(), ops, final_ok, relax=False,
                          apply=avg_apply)
        if order is None:
            return [('not-linearizable', 'no sequential order explains %r '
                     'with final state %r' % (ops, final))]
        return []

    def outcome(self, ex):
        return repr([[repr(r[1]) for r in c.results] for c in ex.clients])

    def violation(self, ex, problems):
        return {
            'signature': {'clause': problems[0][0], 'recipe': 'averager'},
            'message': '%s: averager %r | schedule %r | %s' % (
                problems[0][0], self.describe(), ex.trace, problems[0][1][:500]),
            'replay': {'engine': 'SCHED', 'module': 'props.c20',
                       'recipe': 'averager', 'describe': self.describe(),
                       'schedule': list(ex.trace)},
        }


class ThrottleScenario:
    busy_answers = {}
    timed_sleep = True

    def __init__(self, count, seconds, offsets, calls, ticks):
        self.count = count
        self.seconds = seconds
        self.offsets = offsets      # per caller arrival offset
        self.calls = calls
        self.ticks = ticks          # spontaneous half ticks
        self.programs = [
            ([('wait', off)] if off else []) + [('call',)] * calls
            for off in offsets]
        if ticks:
            self.programs.append([('tick', 0.5)] * ticks)
        self.dir = None

    def describe(self):
        return {'count': self.count, 'seconds': self.seconds,
                'offsets': list(self.offsets), 'calls': self.calls,
                'ticks': self.ticks}

    def setup(self, ex):
        import diskcache as dc
        self.dir = run.fresh_dir('s')
        tmpl = template('cache', {}, lambda p: dc.Cache(p).close())
        shutil.copytree(tmpl, self.dir)
        ENV.reset(self.dir)
        ENV.set_client(0)
        self.ex = ex
        self.starts = []
        self.cache0 = dc.Cache(self.dir)
        n = len(self.offsets)
        self.caches = {i + 1: dc.Cache(self.dir) for i in range(n)}
        self.objects = [self.cache0] + list(self.caches.values())

        self.granted = {}

        def time_func():
            self.granted[ENV.client()] = ENV.now
            return ENV.now

        def record():
            # start instant = the instant at which the throttle let the call
            # through (its own last clock reading); a delay between that
            # reading and the function body is the caller's, not the
            # throttle's
            self.starts.append(self.granted.get(ENV.client(), ENV.now))

        def sleep_func(delay):
            ENV.hook.sleep(delay)

        # the decorator initialises the bucket once (first decoration), the
        # other callers share it through the cache
        self.fns = {}
        first = True
        for cid, cache in self.caches.items():
            if first:
                self.fns[cid] = dc.throttle(
                    cache, self.count, self.seconds, name='thr',
                    time_func=time_func, sleep_func=sleep_func)(record)
                first = False
            else:
                saved = cache.get('thr')
                self.fns[cid] = dc.throttle(
                    cache, self.count, self.seconds, name='thr',
                    time_func=time_func, sleep_func=sleep_func)(record)
                cache.set('thr', saved)

    def perform(self, ex, c, op):
        if op[0] == 'wait':
            ENV.hook.sleep(op[1])
            return None
        if op[0] == 'tick':
            ex.before('tick', op[1])
            ENV.now += op[1]
            return None
        return call(self.fns[c.cid])

    def client_exit(self, ex, c):
        cache = self.caches.get(c.cid)
        if cache is not None:
            cache.close()

    def teardown(self):
        for obj in getattr(self, 'objects', []):
            try:
                obj.close()
            except Exception:
                pass
        if self.dir:
            run.drop(self.dir)

    def shared_key(self, ex):
        return (Snapshot(self.dir).canon(), tuple(self.starts))

    def check(self, ex):
        problems = []
        rate = self.count / float(self.seconds)
        ts = sorted(self.starts)
        for i in range(len(ts)):
            for j in range(i, len(ts)):
                n = j - i + 1
                allowed = self.count + rate * (ts[j] - ts[i]) + 1e-9
                if n > allowed:
                    problems.append(
                        ('rate-exceeded', '%d starts in window [%s, %s], '
                         'allowed %.3f (count=%d per %ss); starts %r'
                         % (n, ts[i] - T0, ts[j] - T0, allowed, self.count,
                            self.seconds, [t - T0 for t in ts])))
                    return problems
        want = len(self.offsets) * self.calls
        if len(ts) != want:
            problems.append(('call-lost', '%d of %d calls started'
                             % (len(ts), want)))
        for c in ex.clients:
            for op, r, _, _ in c.results:
                if isinstance(r, Raises):
                    problems.append(('call-raised', '%r -> %r' % (op, r)))
        return problems

    def outcome(self, ex):
        return repr([t - T0 for t in sorted(self.starts)])

    def violation(self, ex, problems):
        return {
            'signature': {'clause': problems[0][0], 'recipe': 'throttle'},
            'message': '%s: throttle %r | schedule %r | %s' % (
                problems[0][0], self.describe(), ex.trace, problems[0][1][:500]),
            'replay': {'engine': 'SCHED', 'module': 'props.c20',
                       'recipe': 'throttle', 'describe': self.describe(),
                       'schedule': list(ex.trace)},
        }


def plan(tier):
    units = []
    A = [('add', 1.0), ('add', 2.5), ('get',), ('pop',)]
    progs1 = [[a] for a in A]
    progs2 = [[('add', 1.0), x] for x in A] + [[('get',), ('add', 2.5)],
                                                [('pop',), ('add', 2.5)]]
    for p, q in itertools.combinations_with_replacement(progs1, 2):
        if p[0][0] == 'get' and q[0][0] == 'get':
            continue
        for mode in ('own', 'shared'):
            units.append(('avg', [p, q], 'cache', mode, None))
        units.append(('avg', [p, q], 'fanout', 'own', None))
    for p in progs2:
        for q in progs1[:2] + progs1[3:]:
            units.append(('avg', [p, q], 'cache', 'own',
                          None if tier == 'thorough' else 2))
    units.append(('avg', [[('add', 1.0)], [('add', 2.5)], [('pop',)]],
                  'cache', 'own', 2 if tier == 'quick' else 3))
    if tier == 'thorough':
        for p, q in itertools.combinations_with_replacement(progs2, 2):
            units.append(('avg', [p, q], 'cache', 'own', None))
        units.append(('avg', [[('add', 1.0)], [('add', 2.5)], [('get',)]],
                      'cache', 'shared', 3))
    rates = [(1, 1), (2, 1), (1, 2), (3, 2)]
    offs1 = [(0,), (0.5,)]
    offs2 = [(0, 0), (0, 0.5), (0, 1), (0.5, 1)]
    for count, seconds in rates:
        for off in offs1:
            units.append(('thr', count, seconds, off, 3, 2, None))
        for off in offs2:
            units.append(('thr', count, seconds, off, 2, 0, None))
            units.append(('thr', count, seconds, off, 2, 2,
                          2 if tier == 'quick' else 3))
        if tier == 'thorough':
            units.append(('thr', count, seconds, (0, 0, 0.5), 2, 1, 2))
            units.append(('thr', count, seconds, (0, 0.5, 1), 2, 0, 2))
    return units


def work(unit):
    cap = unit[-1]
    unit = unit[:-1]
    if unit[0] == 'avg':
        _, programs, target, mode, bound = unit
        part = sched.explore(
            lambda: AveragerScenario(programs, target, mode),
            bound=bound, por=True, time_cap=cap)
        part['label'] = 'sched/averager'
    else:
        _, count, seconds, offsets, calls, ticks, bound = unit
        part = sched.explore(
            lambda: ThrottleScenario(count, seconds, offsets, calls, ticks),
            bound=bound, por=True, time_cap=cap)
        part['label'] = 'sched/throttle'
    return part


def main(tier, seed):
    rep = run.Report('C20', tier, seed, TECHNIQUE)
    cap = 200 if tier == 'quick' else 3000
    units = run.shuffled([u + (cap,) for u in plan(tier)], seed)
    for part in run.pmap(work, units):
        rep.merge(part, part.get('label'))
    rep.bounds = {
        'averager': '2 clients x 1 op all interleavings (Cache own/shared, '
                    'FanoutCache), 2x(2,1) ops, 3 clients preemption-bounded',
        'throttle': 'rates (1,1),(2,1),(1,2),(3,2); 1 caller x 3 calls, 2 '
                    'callers x 2 calls; offsets {0,1/2,1}; 0 or 2 '
                    'spontaneous half ticks',
        'scenarios': len(units),
    }
    rep.assumptions = [
        'virtual time advances only when every caller sleeps, plus the '
        'explicit half ticks',
        'throttle callers share one bucket initialised once',
    ]
    return run.finish(rep)


def replay(rp):
    d = rp['describe']
    if rp['recipe'] == 'averager':
        sc = AveragerScenario([list(p) for p in d['programs']], d['target'],
                              d['mode'])
    else:
        sc = ThrottleScenario(d['count'], d['seconds'], tuple(d['offsets']),
                              d['calls'], d['ticks'])
    try:
        ex = sched.Execution(sc, list(rp['schedule']), None, None, True).run()
        problems = sc.check(ex)
    finally:
        sc.teardown()
    if problems:
        print('REPRODUCED: %r' % (problems,))
        return 1
    print('not reproduced')
    return 0
