"""C11 - Deque is a persistent collections.deque.

SEQ: BFS over Deque operation histories against collections.deque with the
same maxlen (results, exception classes, contents), incl. reopen / copy /
pickle / size_limit=0 events; Deques from FanoutCache.deque and
DjangoCache.deque.  SCHED: producers/consumers, every element not discarded
by maxlen is popped exactly once (linearizability against a deque)."""
import collections
import copy
import pickle
import shutil

from .. import run, sched, seq
from ..alpha import Snapshot
from ..env import ENV
from ..scen import ObjScenario, replay_obj
from ..spec import Raises, same
from ..worlds import World, call, template, val

TECHNIQUE = ('explicit-state BFS over Deque histories compared step by step '
             'with collections.deque + stateless exploration of all '
             'interleavings of producers/consumers')

BIG = ('$T', 12)
MENU = [[], [0], ['x'], [0, 'x'], [0, 0], ['x', 0], [0, 'x', 0], [1]]


from .c12 import small_files  # noqa: E402


def norm(result):
    if isinstance(result, collections.deque):
        return ('deque', list(result), result.maxlen)
    return result


def seq_op(d, op, is_ref):
    """Apply op to a Deque or to the reference deque; returns result."""
    name, a = op[0], op[1:]
    if name == 'append':
        return d.append(val(a[0]))
    if name == 'appendleft':
        return d.appendleft(val(a[0]))
    if name == 'extend':
        return d.extend([val(x) for x in a[0]])
    if name == 'extendleft':
        return d.extendleft([val(x) for x in a[0]])
    if name in ('extend_raising', 'extendleft_raising'):
        # an iterable that fails after yielding its items: what was consumed
        # stays, as in collections.deque
        def items():
            for x in a[0]:
                yield val(x)
            raise ValueError('iterable failed')
        return getattr(d, name.split('_')[0])(items())
    if name == 'iadd':
        d += [val(x) for x in a[0]]
        return None
    if name == 'pop':
        return d.pop()
    if name == 'popleft':
        return d.popleft()
    if name == 'peek':
        if is_ref:
            if not d:
                raise IndexError('peek from an empty deque')
            return d[-1]
        return d.peek()
    if name == 'peekleft':
        if is_ref:
            if not d:
                raise IndexError('peek from an empty deque')
            return d[0]
        return d.peekleft()
    if name == 'getitem':
        return d[a[0]]
    if name == 'setitem':
        d[a[0]] = val(a[1])
        return None
    if name == 'delitem':
        del d[a[0]]
        return None
    if name == 'rotate':
        return d.rotate(*a)
    if name == 'reverse':
        return d.reverse()
    if name == 'remove':
        return d.remove(val(a[0]))
    if name == 'count':
        return d.count(val(a[0]))
    if name == 'index':
        return d.index(val(a[0]))
    if name == 'contains':
        return val(a[0]) in d
    if name == 'cmp':
        import operator
        fn = getattr(operator, a[0])
        other = [val(x) for x in a[1]]
        if is_ref:
            return fn(list(d), other)
        return fn(d, other)
    if name == 'eqdeque':
        other = collections.deque([val(x) for x in a[0]])
        if is_ref:
            return list(d) == list(other)
        return d == other
    if name == 'list':
        return list(d)
    if name == 'reversed':
        return list(reversed(d))
    if name == 'len':
        return len(d)
    if name == 'clear':
        return d.clear()
    raise ValueError(op)


class DequeWorld(World):
    def __init__(self, maxlen=None, init=(), source='plain'):
        import diskcache as dc
        super().__init__()
        self.maxlen0, self.init, self.source = maxlen, tuple(init), source
        ENV.reset(run.scratch())
        self.dc = dc
        items = [val(x) for x in init]
        self.owner = None
        if source == 'plain':
            small_files(self.dir)
            self.d = dc.Deque(items, directory=self.dir, maxlen=maxlen)
        elif source in ('fanout', 'fanout-lru'):
            extra = {} if source == 'fanout' else {
                'eviction_policy': 'least-recently-used', 'size_limit': 1000,
                'cull_limit': 10}
            self.owner = dc.FanoutCache(self.dir, shards=2, **extra)
            self.d = self.owner.deque('dq', maxlen=maxlen)
            self.d.extend(items)
        else:
            from ..props.c19 import make_django
            self.owner = make_django(self.dir, {'SHARDS': 2})
            self.d = self.owner.deque('dq', maxlen=maxlen)
            self.d.extend(items)
        self.ref = collections.deque(items, maxlen)

    def replay_args(self):
        return [self.maxlen0, list(self.init), self.source]

    def close(self):
        try:
            self.d.cache.close()
            if self.owner is not None:
                self.owner.close()
        except Exception:
            pass
        super().close()

    def apply(self, op):
        dc = self.dc
        name = op[0]
        problems = []
        if name == 'maxlen':
            got = call(setattr, self.d, 'maxlen', op[1])
            self.ref = collections.deque(self.ref, op[1])
            want = None
        elif name == 'reopen':
            ml = self.d.maxlen
            directory = self.d.directory
            self.d.cache.close()
            self.d = dc.Deque(directory=directory,
                              maxlen=None if ml == float('inf') else ml)
            got = want = None
        elif name == 'copy':
            self.d = self.d.copy()
            got = want = None
        elif name == 'pickle':
            self.d = pickle.loads(pickle.dumps(self.d))
            got = want = None
        elif name == 'limit0':
            self.d.cache.reset('size_limit', 0)
            self.d.cache.reset('cull_limit', 10)
            got = want = None
        elif name in ('txn_abort', 'txn_commit'):
            # a user transaction block around a few operations
            def run_block():
                with self.d.transact():
                    for b in op[1]:
                        seq_op(self.d, b, False)
                    if name == 'txn_abort':
                        raise KeyboardInterrupt
            try:
                run_block()
                got = None
            except KeyboardInterrupt:
                got = 'aborted'
            except Exception as exc:
                got = Raises(type(exc).__name__)
            # reference: all or nothing
            import copy as _copy
            trial = _copy.deepcopy(self.ref)
            want = None
            for b in op[1]:
                r = call(seq_op, trial, b, True)
                if isinstance(r, Raises):
                    want = r
                    break
            if want is None and name == 'txn_commit':
                self.ref = trial
            elif want is None:
                want = 'aborted'
        else:
            got = call(seq_op, self.d, op, False)
            want = call(seq_op, self.ref, op, True)
        if not same(got, want):
            problems.append(('result', '%r returned %r, collections.deque '
                             'says %r' % (op, got, want)))
        have = call(list, self.d)
        if not same(have, list(self.ref)):
            problems.append(('contents', 'after %r Deque holds %r, deque holds '
                             '%r' % (op, have, list(self.ref))))
        ml = self.d.maxlen
        ml = None if ml == float('inf') else ml
        if ml != self.ref.maxlen:
            problems.append(('maxlen', 'after %r maxlen %r vs %r'
                             % (op, ml, self.ref.maxlen)))
        if len(self.d) != len(self.ref):
            problems.append(('len', 'len %d vs %d' % (len(self.d),
                                                     len(self.ref))))
        self.snap = Snapshot(self.d.directory)
        bad = self.snap.audit()
        if bad:
            problems.append(('bookkeeping', '; '.join(bad[:3])))
        return got, problems

    def canon(self):
        snap = getattr(self, 'snap', None) or Snapshot(self.d.directory)
        rows = tuple((repr(v), e, t) for k, v, e, t in snap.contents())
        return (rows, self.ref.maxlen, len(snap.files),
                self.d.cache.size_limit)

    def signature(self, hist, problems):
        return {'world': 'DequeWorld', 'source': self.source}


def alphabet(tier):
    ops = [('append', 0), ('append', 'x'), ('append', BIG),
           ('appendleft', 0), ('appendleft', 'x'),
           ('extend', (0, 'x')), ('extendleft', ('x', BIG)), ('iadd', (1, 0)),
           ('extend_raising', (1, BIG)), ('extendleft_raising', (1, 'x')),
           ('pop',), ('popleft',), ('peek',), ('peekleft',),
           ('reverse',), ('remove', 0), ('remove', 'x'), ('remove', 9),
           ('count', 0), ('index', 'x'), ('contains', 0), ('contains', BIG),
           ('list',), ('reversed',), ('len',), ('clear',),
           ('maxlen', None), ('maxlen', 0), ('maxlen', 1), ('maxlen', 2),
           ('reopen',), ('copy',), ('pickle',), ('limit0',),
           ('txn_abort', (('append', BIG), ('popleft',))),
           ('txn_abort', (('appendleft', 0),)),
           ('txn_commit', (('append', BIG), ('appendleft', 'x'))),
           ('eqdeque', (0, 'x'))]
    for i in (-4, -3, -2, -1, 0, 1, 2, 3):
        ops += [('getitem', i), ('delitem', i)]
    for i in (-3, -1, 0, 1, 2):
        ops.append(('setitem', i, 'y'))
    for n in (-3, -2, -1, 0, 1, 2, 3, 4):
        ops.append(('rotate', n))
    ops.append(('rotate',))
    ops.append(('rotate', 'a'))
    for name in ('eq', 'ne', 'lt', 'le', 'gt', 'ge'):
        for m in (MENU[3], MENU[1]) if tier == 'quick' else MENU:
            ops.append(('cmp', name, tuple(m)))
    return ops


STARTS = [
    (None, ()), (3, (0, 'x', BIG)), (2, (0, 'x')), (None, (0, 'x', 0)),
    (1, ('x',)), (0, ()),
]


class DequeScenario(ObjScenario):
    replay_module = 'props.c11'
    maxlen = None

    def make(self, directory):
        import diskcache as dc
        small_files(directory)
        return dc.Deque(directory=directory, maxlen=self.maxlen)

    def do(self, d, op):
        return call(seq_op, d, op, False)

    def spec0(self):
        return collections.deque(maxlen=self.maxlen)

    def apply(self, spec, op):
        r = call(seq_op, spec, op, True)
        return r

    def final_ok(self, spec):
        return same(self.final_view(), list(spec))

    def final_view(self):
        return [v for k, v, e, t in sorted(
            Snapshot(self.dir).contents(), key=lambda r: r[0])]


class DequeScenario1(DequeScenario):
    maxlen = 1


class DequeScenario2(DequeScenario):
    maxlen = 2


def sched_plan(tier):
    A, AL, P, PL = ('append', 'a'), ('appendleft', 'l'), ('pop',), ('popleft',)
    A2 = ('append', 'b')
    init1 = [('append', 'i')]
    units = [
        (None, [[A, A2], [P, P]], [], None if tier == 'thorough' else 2),
        (None, [[A], [PL]], init1, None),
        (None, [[AL], [P]], init1, None),
        (None, [[P], [PL]], init1, None),
        (None, [[P], [P]], init1 + [('append', 'j')], None),
        (None, [[A], [A2]], [], None),
        (None, [[A], [AL]], init1, None),
        (None, [[('append', BIG)], [PL]], init1, None),
        (1, [[A], [A2]], init1, None),
        (1, [[A], [A2]], [], None),
        (2, [[A], [A2]], init1, None),
        (2, [[A], [AL]], init1, None),
        (1, [[A], [P]], init1, None),
        (1, [[A], [A2], [P]], [], 1 if tier == 'quick' else 2),
        (None, [[A], [P], [PL]], init1, 1 if tier == 'quick' else 2),
        (None, [[A], [A2], [PL]], [], 1 if tier == 'quick' else 2),
    ]
    return units


def work(unit):
    kind = unit[0]
    if kind == 'bfs':
        _, maxlen, init, source, depth, tier, seed, cap, chunk, nchunks = unit
        ab = run.shuffled(alphabet(tier), seed, 'dq')
        part = seq.bfs(lambda: DequeWorld(maxlen, init, source), ab, depth,
                       label='deque', time_cap=cap,
                       first=ab[chunk::nchunks])
        part['label'] = 'bfs/%s' % source
        return part
    _, maxlen, programs, init, bound, cap = unit
    cls = {1: DequeScenario1, 2: DequeScenario2}.get(maxlen, DequeScenario)
    part = sched.explore(lambda: cls(programs, init, 'own'), bound=bound,
                         por=True, time_cap=cap)
    part['label'] = 'sched/maxlen=%s' % maxlen
    return part


def main(tier, seed):
    rep = run.Report('C11', tier, seed, TECHNIQUE)
    cap = 200 if tier == 'quick' else 3000
    depth = 2 if tier == 'quick' else 3
    units = []
    nch = 3
    for ch in range(nch):
        for maxlen, init in STARTS:
            units.append(('bfs', maxlen, init, 'plain', depth, tier, seed,
                          cap, ch, nch))
        units.append(('bfs', 2, (0,), 'fanout', depth, tier, seed, cap, ch,
                      nch))
        units.append(('bfs', None, (0, 'x'), 'fanout-lru', depth, tier, seed,
                      cap, ch, nch))
        units.append(('bfs', None, ('x', 0), 'django', depth, tier, seed, cap,
                      ch, nch))
    for maxlen, programs, init, bound in sched_plan(tier):
        units.append(('sched', maxlen, programs, init, bound, cap))
    units = run.shuffled(units, seed)
    for part in run.pmap(work, units):
        rep.merge(part, part.get('label'))
    rep.bounds = {
        'bfs': 'depth %d from %d start states (maxlen None/0/1/2/3, contents '
               'up to 3 items incl. a file-backed one); %d-operation alphabet'
               % (depth, len(STARTS) + 2, len(alphabet(tier))),
        'sched': '2 clients all interleavings, 3 clients <= 2 preemptions; '
                 'maxlen None and 1',
    }
    rep.assumptions = [
        'comparisons are checked against lists and collections.deque '
        'operands from a fixed menu',
        'maxlen is not persisted: reopen passes the same maxlen',
    ]
    return run.finish(rep)


def replay(rp):
    cls = DequeScenario
    return replay_obj(cls, rp)
