"""C14 - lock timeouts fail cleanly: Cache raises, sharded caches report,
nothing changes.

FAULT enumeration over (object kind x operation x value kind x retry x lock
scenario).  Lock scenarios: the write lock is held by another connection
before the call; it is taken at every event position of the call (in
particular between the value-file write and BEGIN); it is released just
before BEGIN attempt k in {1, 2} of a retrying call."""
import os
import shutil

from .. import run
from ..alpha import Snapshot, tree
from ..env import ENV
from ..fault import Injected, LockHook
from ..spec import Raises, same
from ..worlds import call, normalize

TECHNIQUE = ('exhaustive enumeration of lock-contention scenarios (held / '
             'taken at every event position / released after k attempts) for '
             'every data operation of every object kind, against an '
             'unchanged-state oracle')

BIG = '\xe9' + 'T' * 11
BIGB = b'B' * 12
N_BULK = 150


def build(kind, settings):
    """-> (obj, dirs, closer)"""
    import diskcache as dc
    path = run.fresh_dir('t')
    ENV.reset(run.scratch())
    st = dict(disk_min_file_size=8)
    st.update(settings)
    if kind == 'cache':
        obj = dc.Cache(path, **st)
        return obj, [path], obj.close
    if kind == 'fanout':
        obj = dc.FanoutCache(path, shards=2, **st)
        return obj, [path + '/000', path + '/001'], obj.close
    if kind == 'django':
        from .c19 import make_django
        obj = make_django(path, {'SHARDS': 2, 'OPTIONS': st})
        return obj, [path + '/000', path + '/001'], obj.close
    dc.Cache(path, eviction_policy='none', **st).close()
    if kind == 'deque':
        obj = dc.Deque(directory=path)
        return obj, [path], obj.cache.close
    obj = dc.Index(path)
    return obj, [path], obj.cache.close


def populate(kind, obj, init):
    if kind in ('cache', 'fanout'):
        if init == 'one':
            obj.set('a', BIG, tag='t')
            obj.set('n', 5)
        elif init == 'bulk':
            for i in range(N_BULK):
                obj.set(i, i, expire=1 if i % 2 else None, tag='t')
            obj.set('big', BIG, tag='t', expire=1)
        elif init == 'queue':
            obj.push(BIG)
            obj.push(2)
        elif init == 'queue-expired-head':
            obj.push(BIG, expire=1)
            obj.push(2)
            obj.set('zlast', BIGB, expire=1)
    elif kind == 'django':
        if init == 'one':
            obj.set('a', BIG)
            obj.set('n', 5)
    elif kind == 'deque':
        if init != 'empty':
            obj.extend([BIG, 1, 2])
    else:
        if init != 'empty':
            obj.update([('a', BIG), ('n', 5)])


def operations(kind):
    """[(label, init, fn(obj, retry) -> result, writes, has_retry_arg)]"""
    T = True
    ops = []
    if kind in ('cache', 'fanout'):
        def kw(r):
            return {'retry': r}
        ops += [
            ('set-inline', 'one', lambda o, r: o.set('b', 1, **kw(r)), T, T),
            ('set-file', 'one', lambda o, r: o.set('a', BIG + 'x', **kw(r)), T, T),
            ('set-file-new', 'empty', lambda o, r: o.set('c', BIGB, **kw(r)), T, T),
            ('add-file', 'empty', lambda o, r: o.add('c', BIG, **kw(r)), T, T),
            ('add-present', 'one', lambda o, r: o.add('a', BIGB, **kw(r)), T, T),
            ('incr', 'one', lambda o, r: o.incr('n', **kw(r)), T, T),
            ('decr-new', 'one', lambda o, r: o.decr('m', **kw(r)), T, T),
            ('touch', 'one', lambda o, r: o.touch('a', 5, **kw(r)), T, T),
            ('pop', 'one', lambda o, r: o.pop('a', **kw(r)), T, T),
            ('delete', 'one', lambda o, r: o.delete('a', **kw(r)), T, T),
            ('clear', 'bulk', lambda o, r: o.clear(**kw(r)), T, T),
            ('evict', 'bulk', lambda o, r: o.evict('t', **kw(r)), T, T),
            ('expire', 'bulk', lambda o, r: o.expire(**kw(r)), T, T),
            ('cull', 'bulk', lambda o, r: o.cull(**kw(r)), T, T),
            ('setitem', 'one', lambda o, r: o.__setitem__('a', BIGB), T, False),
            ('delitem', 'one', lambda o, r: o.__delitem__('a'), T, False),
            ('get', 'one', lambda o, r: o.get('a', **kw(r)), False, T),
            ('getitem', 'one', lambda o, r: o['a'], False, False),
            ('contains', 'one', lambda o, r: 'a' in o, False, False),
            ('len', 'one', lambda o, r: len(o), False, False),
            ('iter', 'one', lambda o, r: list(o), False, False),
        ]
        if kind == 'cache':
            ops += [
                ('push-file', 'queue', lambda o, r: o.push(BIGB, **kw(r)), T, T),
                ('pull', 'queue', lambda o, r: o.pull(**kw(r)), T, T),
                ('peek', 'queue', lambda o, r: o.peek(**kw(r)), T, T),
                ('peekitem', 'one', lambda o, r: o.peekitem(**kw(r)), T, T),
                ('peek-expired-head', 'queue-expired-head',
                 lambda o, r: o.peek(**kw(r)), T, T),
                ('peekitem-expired-last', 'queue-expired-head',
                 lambda o, r: o.peekitem(**kw(r)), T, T),
                ('check', 'one', lambda o, r: len(o.check(**kw(r))), T, T),
                ('iterkeys', 'one', lambda o, r: list(o.iterkeys()), False,
                 False),
            ]
    elif kind == 'django':
        def kw(r):
            return {'retry': r}
        ops += [
            ('set-file', 'one', lambda o, r: o.set('a', BIG + 'x', **kw(r)), T, T),
            ('add-file', 'empty', lambda o, r: o.add('c', BIG, **kw(r)), T, T),
            ('incr', 'one', lambda o, r: o.incr('n', **kw(r)), T, T),
            ('touch', 'one', lambda o, r: o.touch('a', 5, **kw(r)), T, T),
            ('pop', 'one', lambda o, r: o.pop('a', **kw(r)), T, T),
            ('delete', 'one', lambda o, r: o.delete('a', **kw(r)), T, T),
            ('set-default', 'one', lambda o, r: o.set('a', BIGB), T, False),
            ('get', 'one', lambda o, r: o.get('a'), False, False),
            ('has_key', 'one', lambda o, r: o.has_key('a'), False, False),
            ('get_many', 'one', lambda o, r: o.get_many(['a', 'n']), False,
             False),
        ]
    elif kind == 'deque':
        ops += [
            ('append-file', 'three', lambda o, r: o.append(BIGB), T, False),
            ('appendleft', 'three', lambda o, r: o.appendleft(0), T, False),
            ('pop', 'three', lambda o, r: o.pop(), T, False),
            ('popleft', 'three', lambda o, r: o.popleft(), T, False),
            ('peek', 'three', lambda o, r: o.peek(), T, False),
            ('peekleft', 'three', lambda o, r: o.peekleft(), T, False),
            ('remove', 'three', lambda o, r: o.remove(1), T, False),
            ('rotate', 'three', lambda o, r: o.rotate(1), T, False),
            ('setitem', 'three', lambda o, r: o.__setitem__(0, BIGB), T, False),
            ('delitem', 'three', lambda o, r: o.__delitem__(0), T, False),
            ('getitem', 'three', lambda o, r: o[0], False, False),
            ('len', 'three', lambda o, r: len(o), False, False),
            ('list', 'three', lambda o, r: list(o), False, False),
        ]
    else:
        ops += [
            ('setitem-file', 'two', lambda o, r: o.__setitem__('a', BIGB), T, False),
            ('delitem', 'two', lambda o, r: o.__delitem__('a'), T, False),
            ('pop', 'two', lambda o, r: o.pop('a'), T, False),
            ('popitem', 'two', lambda o, r: o.popitem(), T, False),
            ('setdefault-new', 'two', lambda o, r: o.setdefault('z', BIG), T,
             False),
            ('push', 'two', lambda o, r: o.push(BIG), T, False),
            ('pull', 'two', lambda o, r: o.pull(), T, False),
            ('getitem', 'two', lambda o, r: o['a'], False, False),
            ('len', 'two', lambda o, r: len(o), False, False),
            ('items', 'two', lambda o, r: list(o.items()), False, False),
        ]
    return ops


def state(dirs):
    return tuple((Snapshot(d).canon(), tuple(tree(d))) for d in dirs)


def live_state(dirs):
    """Contents as lookups see them: items whose expiry has not passed.
    (An operation that times out may already have dropped expired items on
    its way, like peek does with an expired head: that is expiry, not an
    effect of the failed call.)"""
    out = []
    for d in dirs:
        rows = [(repr(k), repr(v), e, t)
                for k, v, e, t in Snapshot(d).contents()
                if e is None or e > ENV.now]
        out.append(tuple(rows))
    return tuple(out)


def lasting_state(dirs):
    """Keys, values and tags of the items that never expire (comparable
    between runs in which different amounts of virtual time passed)."""
    return tuple(tuple((repr(k), repr(v), t)
                       for k, v, e, t in Snapshot(d).contents() if e is None)
                 for d in dirs)


def rows(dirs):
    return sum(len(Snapshot(d).rows) for d in dirs)


def lock_db(kind, obj, dirs, label):
    """Database file the operation needs to write."""
    if len(dirs) == 1:
        return os.path.join(dirs[0], 'cache.db')
    key = {'set-inline': 'b', 'set-file-new': 'c', 'add-file': 'c',
           'incr': 'n', 'decr-new': 'm'}.get(label, 'a')
    cache = obj._cache if kind == 'django' else obj
    if kind == 'django':
        key = obj.make_key(key)
    idx = cache._hash(key) % 2
    return os.path.join(dirs[idx], 'cache.db')


def one_run(kind, settings, label, init, fn, retry, hook_args):
    obj, dirs, closer = build(kind, settings)
    hook = None
    try:
        populate(kind, obj, init)
        ENV.now += 2
        before = state(dirs)
        before_live = live_state(dirs)
        nrows = rows(dirs)
        if hook_args is not None:
            hook = LockHook(lock_db(kind, obj, dirs, label), *hook_args)
            ENV.hook = hook
        else:
            hook = LockHook(lock_db(kind, obj, dirs, label), 'none')
            ENV.hook = hook
        try:
            result = call(fn, obj, retry)
            if isinstance(result, Raises):
                pass
        except Injected as exc:
            result = ('WAITS', str(exc)[:40])
        finally:
            hook.enabled = False
            ENV.hook = None
            hook.close()
        after = state(dirs)
        return {'result': result,
                'unchanged': before == after or (
                    before_live == live_state(dirs)
                    and not [x for d in dirs for x in Snapshot(d).audit()]),
                'after': after, 'lasting': lasting_state(dirs),
                'log': hook.log, 'rows_before': nrows,
                'rows_after': rows(dirs), 'begins': hook.begins}
    finally:
        if hook is not None:
            hook.close()
        try:
            closer()
        except Exception:
            pass
        for d in dirs[:1]:
            run.drop(os.path.dirname(d) if len(dirs) > 1 else d)


FAILURE = {'fanout': {'set-inline': False, 'set-file': False,
                      'set-file-new': False, 'add-file': False,
                      'add-present': False, 'incr': None, 'decr-new': None,
                      'touch': False, 'pop': None, 'delete': False,
                      'get': None},
           'django': {'set-file': False, 'add-file': False, 'incr': None,
                      'touch': False, 'pop': None, 'delete': False}}


def case_unit(unit):
    _, kind, settings, label = unit
    part = {'states': 0, 'transitions': 0, 'executions': 0, 'violations': [],
            'outcomes': {}, 'samples': [], 'caps': [], 'label': 'fault/' + kind}
    entry = [o for o in operations(kind) if o[0] == label][0]
    _, init, fn, writes, has_retry = entry
    slow_read = (not writes and label in ('get', 'getitem') and (
        settings.get('statistics') or settings.get('eviction_policy', '')
        .startswith('least-recently-used') or settings.get(
            'eviction_policy', '').startswith('least-frequently')))
    needs_lock = writes or slow_read

    def bad(clause, scenario, msg):
        part['violations'].append({
            'signature': {'clause': clause, 'kind': kind, 'op': label,
                          'scenario': scenario[0]},
            'message': '%s: %s.%s settings=%r scenario=%r: %s' % (
                clause, kind, label, settings, scenario, msg),
            'replay': {'engine': 'FAULT', 'module': 'props.c14',
                       'unit': list(unit), 'scenario': list(scenario)}})

    def count(k):
        part['outcomes'][k] = part['outcomes'].get(k, 0) + 1

    base = one_run(kind, settings, label, init, fn, False, None)
    part['executions'] += 1
    events = base['log']
    part['states'] = len(events)
    retries = (False, True) if has_retry else (True,)
    for retry in retries:
        effective_retry = retry if has_retry else True
        if kind == 'django' and label == 'set-default':
            effective_retry = True
        # --- lock held before the call, never released ------------------
        scenarios = [('held', None, None)]
        # --- lock taken at every event position -------------------------
        for i, (k, lab) in enumerate(events):
            if i > 0:
                scenarios.append(('at', i, None))
        for sc in scenarios:
            r = one_run(kind, settings, label, init, fn, retry, sc)
            part['transitions'] += 1
            part['executions'] += 1
            res = r['result']
            waits = isinstance(res, tuple) and res[:1] == ('WAITS',)
            timed_out = res == Raises('Timeout')
            count('%s/%s' % (sc[0], 'waits' if waits else 'timeout'
                             if timed_out else 'other'))
            if not needs_lock:
                # lookups that need no write keep working
                if not same(res, base['result']):
                    bad('lock-free-lookup-disturbed', sc,
                        'returned %r, without contention %r'
                        % (res, base['result']))
                continue
            if sc[0] == 'at' and r['begins'] == 0:
                continue
            took_effect = same(res, base['result']) and \
                r['after'] == base['after']
            if took_effect and sc[0] == 'at':
                continue   # lock arrived after the operation's transaction
            if effective_retry:
                if not waits and not took_effect and not (
                        kind in ('fanout', 'django')
                        and label in ('clear', 'evict', 'expire', 'cull')):
                    if sc[0] == 'at' and partial_bulk(label, res, r):
                        continue
                    bad('retry-did-not-wait', sc, 'returned %r' % (res,))
                continue
            if kind == 'cache':
                if label in ('clear', 'evict', 'expire', 'cull'):
                    check_bulk(bad, sc, label, res, r)
                    continue
                if label == 'check' and not timed_out:
                    # integrity_check/VACUUM statements run before BEGIN
                    if isinstance(res, Raises):
                        continue
                if not timed_out:
                    bad('no-timeout-raised', sc, 'returned %r' % (res,))
                if not r['unchanged']:
                    bad('timeout-had-effect', sc, 'contents or directory '
                        'listing changed although the call failed with %r'
                        % (res,))
            else:
                if isinstance(res, Raises):
                    bad('sharded-raised', sc, 'raised %r' % (res,))
                elif label in FAILURE[kind] and \
                        not same(res, FAILURE[kind][label]):
                    bad('sharded-wrong-report', sc, 'returned %r, expected %r'
                        % (res, FAILURE[kind][label]))
                if label not in ('clear', 'evict', 'expire', 'cull') \
                        and not r['unchanged']:
                    bad('timeout-had-effect', sc, 'state changed although the '
                        'call reported failure %r' % (res,))
        # --- lock released before BEGIN attempt k -----------------------
        sharded_bulk = kind in ('fanout', 'django') and label in (
            'clear', 'evict')
        if needs_lock and (effective_retry or sharded_bulk):
            # sharded bulk removals keep trying a busy shard whatever the
            # retry flag; 'slow' lets each failed attempt take 31 virtual
            # seconds (a shard that stays locked for more than a minute)
            slow = [('release', None, 3, 50, 31)]
            for sc in [('release', None, 1), ('release', None, 2)] + slow:
                k = sc[2]
                r = one_run(kind, settings, label, init, fn, retry, sc)
                part['transitions'] += 1
                part['executions'] += 1
                count('release/%s' % ('same' if same(
                    r['result'], base['result']) else 'different'))
                if not same(r['result'], base['result']):
                    bad('retry-wrong-result', sc, 'after the lock was released '
                        'the call returned %r, without contention %r'
                        % (r['result'], base['result']))
                elif (r['lasting'] != base['lasting'] if len(sc) > 4
                      else r['after'] != base['after']):
                    # (when the wait took virtual time, time stamps differ)
                    bad('retry-wrong-state', sc, 'final state differs from '
                        'the uncontended run')
    part['samples'].append({'kind': kind, 'op': label,
                            'events': [list(e) for e in events[:12]]})
    return part


def partial_bulk(label, res, r):
    return label in ('clear', 'evict', 'expire', 'cull')


def check_bulk(bad, sc, label, res, r):
    """Timeout(n): n items were removed before the lock was lost."""
    removed = r['rows_before'] - r['rows_after']
    if isinstance(res, Raises):
        bad('bulk-timeout-without-count', sc, 'raised %r' % (res,))
        return
    if isinstance(res, tuple) and res[:1] == ('TIMEOUT',):
        if res[1] != removed:
            bad('bulk-timeout-count', sc, 'Timeout(%r) but %d items were '
                'removed' % (res[1], removed))
        return
    if not isinstance(res, int) or res != removed:
        bad('bulk-count', sc, 'returned %r but %d items were removed'
            % (res, removed))


def wrap_bulk(fn):
    """Report Timeout(n) as ('TIMEOUT', n)."""
    def inner(o, r):
        import diskcache
        try:
            return fn(o, r)
        except diskcache.Timeout as exc:
            return ('TIMEOUT', exc.args[0] if exc.args else None)
    return inner


_real_operations = operations


def operations(kind):   # noqa: F811
    out = []
    for label, init, fn, writes, has_retry in _real_operations(kind):
        if kind == 'cache' and label in ('clear', 'evict', 'expire', 'cull'):
            fn = wrap_bulk(fn)
        out.append((label, init, fn, writes, has_retry))
    return out


def plan(tier):
    units = []
    setts = {'cache': [{}, {'statistics': 1},
                       {'eviction_policy': 'least-recently-used'}],
             'fanout': [{}, {'statistics': 1}], 'django': [{}],
             'deque': [{}], 'index': [{}]}
    for kind, sl in setts.items():
        for st in sl:
            for label, init, fn, writes, has_retry in operations(kind):
                if st and writes and tier == 'quick' and label not in (
                        'set-file', 'pop', 'incr'):
                    continue
                units.append(('case', kind, st, label))
    return units


# ---------------------------------------------------------------- SCHED ---
# A call that gives up with Timeout has no effect on anybody else either: in
# particular not on another thread of the same Cache object that is inside a
# transaction.  Explored over all interleavings; the first (or second) busy
# answer to the designated client is delivered as a timeout instead of
# letting it wait.

def sched_plan(tier):
    S = lambda k, v: ('set', k, v, None, None)    # noqa: E731
    TB, TBF = ('$T', 12), ('$B', 12)
    block = ('block', (S('a', TB), S('b', 2)), None)
    blockn = ('block', (('incr', 'n', 1, 0), ('incr', 'm', 1, 0)), None)
    units = []
    for mode in ('shared', 'own'):
        for victim in ([S('b', 9)], [('incr', 'n', 1, 0)], [('pop', 'a', 0)],
                       [S('c', TBF)], [('delete', 'a')]):
            for nth in (0, 1):
                units.append(('sched', [[block], victim], 'file', mode,
                              {(2, nth): 'timeout'}))
        units.append(('sched', [[blockn], [('incr', 'n', 1, 0)]], 'absent',
                      mode, {(2, 0): 'timeout'}))
        units.append(('sched', [[S('a', TB), S('b', 1)], [S('a', 5)]], 'file',
                      mode, {(2, 0): 'timeout'}))
        if tier == 'thorough':
            units.append(('sched', [[block], [S('b', 9)], [('get', 'b', 0)]],
                          'file', mode, {(2, 0): 'timeout'}))
    return units


def sched_unit(unit):
    from .. import sched
    from ..scen import CacheScenario
    from . import c05
    _, programs, init, mode, answers = unit

    class TimeoutScenario(CacheScenario):
        busy_answers = answers

        def ops(self, ex):
            # a call that raised Timeout must be explained as not having
            # happened at all
            return [o for o in CacheScenario.ops(self, ex)
                    if o.result != Raises('Timeout')]

        def outcome(self, ex):
            return repr([[repr(r[1])[:30] for r in c.results]
                         for c in ex.clients])

    part = sched.explore(
        lambda: TimeoutScenario(programs, c05.INITS[init], mode,
                                {'disk_min_file_size': 8}),
        bound=2 if len(programs) > 2 else None, por=True,
        time_cap=1500 if len(programs) > 2 else 150)
    part['label'] = 'sched/timeout'
    return part


def dispatch(unit):
    if unit[0] == 'sched':
        return sched_unit(unit)
    return case_unit(unit)


def main(tier, seed):
    rep = run.Report('C14', tier, seed, TECHNIQUE)
    units = run.shuffled(plan(tier) + sched_plan(tier), seed)
    for part in run.pmap(dispatch, units):
        rep.merge(part, part.get('label'))
    rep.bounds = {
        'cases': len(units),
        'scenarios': 'lock held before the call; lock taken at every event '
                     'position of the call; lock released before BEGIN '
                     'attempt 1 and 2 of a retrying call, and before attempt '
                     '3 when each failed attempt takes 31 virtual seconds (a '
                     'lock held for more than a minute); retry on/off',
        'bulk': '%d items (two pages) for clear/evict/expire/cull' % N_BULK,
        'sched': 'all interleavings of a transaction block (or two writes) '
                 'of one client with a write of another whose first or '
                 'second busy answer is delivered as Timeout, separate and '
                 'shared Cache objects: the timed-out call must be '
                 'explainable as not having happened and everybody else '
                 'unaffected',
    }
    rep.assumptions = [
        'the contender is a second SQLite connection in the same thread; '
        'connections use busy timeout 0 so SQLITE_BUSY is immediate',
        'a retrying call that is still spinning after 50 BEGIN attempts '
        'counts as waiting',
    ]
    return run.finish(rep)


def replay(rp):
    run._worker_init()
    _, kind, settings, label = rp['unit']
    settings = settings if isinstance(settings, dict) else {}
    part = case_unit(('case', kind, settings, label))
    hits = [v for v in part['violations']
            if v['replay']['scenario'] == list(rp['scenario'])]
    for v in hits[:3]:
        print('REPRODUCED:', v['message'])
    return 1 if hits else 0
