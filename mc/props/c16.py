"""C16 - memoized functions return what the function returns and never share
entries.

(a) GRID keys: every call signature with <= 3 positional and <= 2 keyword
    arguments over {None, 1, 1.0, 'a', 'b', True}, grouped by the stored key
    of __cache_key__, x typed x ignore sets x name given/derived: two
    signatures may share a stored key only if they are the same call after
    dropping ignored arguments.
(b) SEQ: histories of <= 3 calls (+ clock ticks) of a variadic function that
    returns its own arguments, through Cache / FanoutCache / Index /
    DjangoCache.memoize and memoize_stampede (recompute thread adopted and
    run inline, random.random decided by the harness)."""
import itertools

from .. import run, seq
from ..alpha import Snapshot
from ..env import ENV, T0
from ..spec import Raises, same
from ..worlds import World, call
from . import c03

TECHNIQUE = ('bounded-exhaustive enumeration of call signatures grouped by '
             'stored key + explicit-state BFS over call histories through '
             'every memoizing decorator')

VALUES = [None, 1, 1.0, 'a', 'b', True]
NAMES = ['a', 'b']
IGNORES = [(), (0,), ('a',), (0, 'a'), (1,), (2, 'b')]


def signatures():
    out = []
    kwsets = [()]
    for n in NAMES:
        kwsets += [((n, v),) for v in VALUES]
    kwsets += [(('a', v), ('b', w)) for v in VALUES for w in VALUES]
    for n in range(4):
        for args in itertools.product(VALUES, repeat=n):
            for kw in kwsets:
                out.append((args, kw))
    return out


def tval(v, typed):
    """Identity of one argument value: type-strict when typed, else ==."""
    if typed:
        return (type(v).__name__, repr(v))
    if isinstance(v, (int, float)) and not isinstance(v, bool):
        return ('num', float(v))
    if isinstance(v, bool):
        return ('num', float(v))
    return (type(v).__name__, repr(v))


def identity(args, kw, typed, ignore):
    """The call, after dropping ignored arguments."""
    a = tuple(tval(v, typed) for i, v in enumerate(args) if i not in ignore)
    k = tuple(sorted((n, tval(v, typed)) for n, v in kw if n not in ignore))
    return (a, k)


def flat(args, kw, ignore):
    a = tuple(v for i, v in enumerate(args) if i not in ignore)
    k = tuple(x for n, v in sorted(kw) if n not in ignore for x in (n, v))
    return a + (None,) + k


def same_named_functions():
    def outer1():
        def load(*args, **kwargs):
            return 1
        return load

    def outer2():
        def load(*args, **kwargs):
            return 2
        return load

    class Users:
        @staticmethod
        def load(*args, **kwargs):
            return 3

    class Orders:
        @staticmethod
        def load(*args, **kwargs):
            return 4

    return [outer1(), outer2(), Users.load, Orders.load]


def key_unit(unit):
    import diskcache as dc
    _, typed, ignore, named, target = unit
    part = {'states': 0, 'transitions': 0, 'executions': 0, 'violations': [],
            'outcomes': {}, 'samples': [], 'caps': [], 'label': 'grid/keys'}
    root = run.fresh_dir('m')
    ENV.reset(run.scratch())
    cache = dc.Cache(root)

    def f(*args, **kwargs):
        return None

    name = 'fn' if named else None
    if target == 'stampede':
        wrapped = dc.memoize_stampede(cache, expire=10, name=name, typed=typed,
                                      ignore=set(ignore))(f)
    else:
        wrapped = cache.memoize(name=name, typed=typed, ignore=set(ignore))(f)
    groups = {}
    disk = cache.disk
    split_seen = False
    for args, kw in signatures():
        key = wrapped.__cache_key__(*args, **dict(kw))
        stored = disk.put(key)
        groups.setdefault((bytes(stored[0]), stored[1]), []).append((args, kw))
        part['transitions'] += 1
        if len(kw) > 1 and not split_seen:
            # the same call with its keywords written in another order is
            # the same call
            other = wrapped.__cache_key__(*args, **dict(reversed(kw)))
            if disk.put(other) != stored:
                split_seen = True
                part['violations'].append({
                    'signature': {'clause': 'same-call-split',
                                  'reason': 'keyword-order', 'typed': typed},
                    'message': 'same-call-split: typed=%r ignore=%r: '
                               'f(*%r, **%r) gets key %r but with the keywords '
                               'in reverse order %r'
                               % (typed, ignore, args, dict(kw), key, other),
                    'replay': {'engine': 'GRID', 'module': 'props.c16',
                               'unit': list(unit), 'generic': True}})
    part['executions'] = part['transitions']
    part['states'] = len(groups)
    shared = 0
    for stored, sigs in groups.items():
        ids = {}
        for args, kw in sigs:
            ids.setdefault(identity(args, kw, typed, ignore), (args, kw))
        if len(ids) > 1:
            shared += 1
            reps = list(ids.values())[:3]
            collide = len({repr(flat(a, k, ignore)) for a, k in reps}) == 1
            part['violations'].append({
                'signature': {'clause': 'shared-entry',
                              'reason': 'flattened-equal' if collide
                              else 'other', 'typed': typed},
                'message': 'shared-entry: typed=%r ignore=%r name=%r: '
                           'different calls map to one stored key: %s'
                           % (typed, ignore, name,
                              ' | '.join('f(*%r, **%r)' % (a, dict(k))
                                         for a, k in reps)),
                'replay': {'engine': 'GRID', 'module': 'props.c16',
                           'unit': list(unit),
                           'calls': [[list(a), [list(x) for x in k]]
                                     for a, k in reps]}})
    if not named:
        # different functions with derived names never share a key base
        fns = same_named_functions()
        extras = []

        def extra_obj(cls, **kw):
            d = run.fresh_dir('mx')
            obj = cls(d, **kw)
            extras.append((obj, d))
            return obj

        def plain(x):
            return x

        def other(x):
            return -x

        fns += [plain, other]
        wraps = [cache.memoize(typed=typed, ignore=set(ignore))(g)
                 for g in fns]
        # ... also when ONE decorator object is applied to all of them
        for make in (lambda: cache.memoize(typed=typed, ignore=set(ignore)),
                     lambda: dc.memoize_stampede(cache, 10, typed=typed,
                                                 ignore=set(ignore)),
                     lambda: extra_obj(dc.Index).memoize(
                         typed=typed, ignore=set(ignore)),
                     lambda: extra_obj(dc.FanoutCache, shards=2).memoize(
                         typed=typed, ignore=set(ignore))):
            deco = make()
            wraps_shared = [deco(g) for g in fns]
            for (i, w1), (j, w2) in itertools.combinations(
                    enumerate(wraps_shared), 2):
                part['transitions'] += 1
                if w1.__cache_key__(1) == w2.__cache_key__(1):
                    part['violations'].append({
                        'signature': {'clause': 'shared-entry',
                                      'reason': 'one-decorator-object'},
                        'message': 'shared-entry: one memoize() decorator '
                                   'applied to %s and %s gives both the key '
                                   '%r' % (fns[i].__qualname__,
                                           fns[j].__qualname__,
                                           w1.__cache_key__(1)),
                        'replay': {'engine': 'GRID', 'module': 'props.c16',
                                   'unit': list(unit)}})
                    break
        for obj, d in extras:
            (obj.cache if isinstance(obj, dc.Index) else obj).close()
            run.drop(d)
        for (i, w1), (j, w2) in itertools.combinations(enumerate(wraps), 2):
            for args, kw in (((), ()), ((1,), ()), ((), (('a', 1),))):
                part['transitions'] += 1
                k1 = disk.put(w1.__cache_key__(*args, **dict(kw)))
                k2 = disk.put(w2.__cache_key__(*args, **dict(kw)))
                if (bytes(k1[0]), k1[1]) == (bytes(k2[0]), k2[1]):
                    part['violations'].append({
                        'signature': {'clause': 'shared-entry',
                                      'reason': 'different-functions'},
                        'message': 'shared-entry: functions %s and %s get '
                                   'the same key for f(*%r, **%r)'
                                   % (fns[i].__qualname__,
                                      fns[j].__qualname__, args, dict(kw)),
                        'replay': {'engine': 'GRID', 'module': 'props.c16',
                                   'unit': list(unit)}})
    part['outcomes']['groups-shared' if shared else 'groups-clean'] = 1
    part['samples'].append({'typed': typed, 'ignore': list(ignore),
                            'signatures': part['transitions'],
                            'stored_keys': len(groups)})
    cache.close()
    run.drop(root)
    return part


# ------------------------------------------------------------------ SEQ ---

CALLS = [
    ((), ()), ((1,), ()), ((1.0,), ()), ((True,), ()), (('a',), ()),
    ((None,), ()), ((1, 2), ()), ((), (('a', 1),)), ((), (('b', 1),)),
    ((1,), (('a', 2),)), ((1,), (('a', None),)), ((1, None, 'a'), ()),
    ((1, 'a', 2), ()), ((), (('a', 1), ('b', 2))), (('a', 1), ()),
    ((2,), ()), ((), (('a', 1.0),)),
]


class InlineThread:
    def __init__(self, group=None, target=None, args=(), kwargs=None, **kw):
        self.target, self.args, self.kwargs = target, args, kwargs or {}
        self.daemon = True

    def start(self):
        self.target(*self.args, **self.kwargs)

    def join(self, timeout=None):
        pass


class SeqHook:
    """Hook used in SEQ mode only to adopt library threads inline."""

    def before(self, kind, info):
        pass

    def after(self, kind, info, exc):
        pass

    def spawn(self, *args, **kwargs):
        return InlineThread(*args, **kwargs)


class MemoWorld(World):
    def __init__(self, target, expire, typed, ignore, rnd=None):
        import diskcache as dc
        super().__init__()
        self.args0 = [target, expire, typed, list(ignore), rnd]
        ENV.reset(run.scratch())
        ENV.hook = SeqHook()
        ENV.random_value = rnd
        self.target, self.expire = target, expire
        self.typed, self.ignore = typed, tuple(ignore)
        self.calls = 0
        self.owner = None
        ign = set(ignore)

        def f(*args, **kwargs):
            self.calls += 1
            if target == 'stampede':
                ENV.now += 0.25      # the function takes time (stampede
                #                      measures it to decide on early refresh)
            return (args, tuple(sorted(kwargs.items())))

        self.f = f
        if target == 'cache':
            self.cache = dc.Cache(self.dir)
            self.w = self.cache.memoize(expire=expire, typed=typed,
                                        ignore=ign)(f)
        elif target == 'fanout':
            self.cache = dc.FanoutCache(self.dir, shards=2)
            self.w = self.cache.memoize(expire=expire, typed=typed,
                                        ignore=ign)(f)
        elif target == 'index':
            self.cache = dc.Index(self.dir)
            self.w = self.cache.memoize(typed=typed, ignore=ign)(f)
        elif target in ('django', 'django-v2'):
            from .c19 import make_django, tmo
            self.cache = make_django(self.dir, {'TIMEOUT': 300})
            extra = {'version': 2} if target == 'django-v2' else {}
            self.w = self.cache.memoize(
                timeout=tmo('DEFAULT') if expire is None else expire,
                typed=typed, ignore=ign, **extra)(f)
        else:
            self.cache = dc.Cache(self.dir)
            self.w = dc.memoize_stampede(self.cache, expire=expire or 10,
                                         typed=typed, ignore=ign)(f)
        self.table = {}      # identity -> (result, stored at)

    def replay_args(self):
        return self.args0

    def close(self):
        ENV.hook = None
        ENV.random_value = None
        try:
            c = self.cache
            (c.cache if hasattr(c, 'cache') and not callable(c.cache)
             else c).close()
        except Exception:
            pass
        super().close()

    def apply(self, op):
        if op[0] == 'tick':
            ENV.now += op[1]
            return None, []
        args, kw = op[1], op[2]
        before = self.calls
        got = call(self.w, *args, **dict(kw))
        ran = self.calls - before
        want = (tuple(args), tuple(sorted(kw)))
        problems = []
        strict = identity(args, kw, True, self.ignore)
        loose = identity(args, kw, self.typed, self.ignore)
        ttl = self.expire
        if self.target == 'stampede':
            ttl = self.expire or 10
        if self.target == 'index':
            ttl = None

        def live(entry):
            return entry is not None and ttl != 0 and (
                ttl is None or ENV.now < entry[1] + ttl)

        prev = self.table.get(strict)
        early = (self.target == 'stampede' and ENV.random_value is not None
                 and ENV.random_value < 1e-200)
        if live(prev):
            # the same call within expiry: served from the cache
            want_result = prev[0]
            if ran and not early:
                problems.append(('recomputed', 'repeated call %r within '
                                 'expiry ran the function again' % (op,)))
            if ran:
                self.table[strict] = (want, ENV.now, loose)
        elif not ran:
            # served without running: only an equal call (untyped: equal up
            # to ==) may lend its entry
            lenders = [e for e in self.table.values()
                       if e[2] == loose and live(e)]
            if lenders:
                want_result = got if any(same(got, e[0]) for e in lenders) \
                    else lenders[0][0]
            else:
                want_result = want
                reason = 'other'
                for res, at, _ in self.table.values():
                    if same(res, got):
                        a0, k0 = res
                        if repr(flat(a0, k0, self.ignore)) == repr(
                                flat(args, kw, self.ignore)):
                            reason = 'flattened-equal'
                problems.append(('shared-entry', 'call %r was served %r '
                                 'without running the function (entry of a '
                                 'different call or an expired one)'
                                 % (op, got), reason))
        else:
            want_result = want
            if ttl != 0:
                self.table[strict] = (want, ENV.now, loose)
        if not problems and not same(got, want_result):
            reason = None
            for res, at, _ in self.table.values():
                if same(res, got) and not same(res, want):
                    a0, k0 = res
                    if repr(flat(a0, k0, self.ignore)) == repr(
                            flat(args, kw, self.ignore)):
                        reason = 'flattened-equal'
            if reason:
                problems.append(('shared-entry', 'call %r returned %r, the '
                                 'result of a different call'
                                 % (op, got), reason))
            else:
                problems.append(('wrong-result', 'call %r returned %r, the '
                                 'function returns %r'
                                 % (op, got, want_result)))
        if ttl == 0 and self.target in ('cache', 'fanout', 'django',
                                        'django-v2'):
            n = len(self.cache) if not self.target.startswith('django') \
                else len(self.cache._cache)
            if n:
                problems.append(('expire-zero-stored', 'expire=0 stored %d '
                                 'item(s)' % n))
        self.reason = problems[0][2] if problems and len(problems[0]) > 2 \
            else None
        return got, [p[:2] for p in problems]

    def canon(self):
        return (repr(sorted((repr(k), repr(v)) for k, v in
                            self.table.items())), ENV.now - T0)

    def signature(self, hist, problems):
        sig = {'world': 'MemoWorld', 'target': self.target}
        if getattr(self, 'reason', None):
            sig['reason'] = self.reason
        return sig


def results_unit(unit):
    """A result that is None or otherwise falsy is a result: the second
    identical call is served from the cache, for every decorator."""
    part = {'states': 0, 'transitions': 0, 'executions': 0, 'violations': [],
            'outcomes': {}, 'samples': [], 'caps': [], 'label': 'grid/results'}
    for target in ('cache', 'fanout', 'index', 'django', 'django-v2',
                   'stampede'):
        for value in (None, 0, '', False, (), 0.0, b'', [], 'x' * 40000):
            w = MemoWorld(target, None, False, ())
            try:
                w.f = None
                runs = []

                def g(*args, **kwargs):
                    runs.append(args)
                    if target == 'stampede':
                        ENV.now += 0.25
                    return value
                g.__name__ = 'g'
                import diskcache as dc
                if target == 'stampede':
                    deco = dc.memoize_stampede(w.cache, expire=10)
                elif target == 'django-v2':
                    deco = w.cache.memoize(version=2)
                else:
                    deco = w.cache.memoize()
                wrapped = deco(g)
                got = [call(wrapped, 1, a=2), call(wrapped, 1, a=2),
                       call(wrapped, 1, a=2)]
                part['transitions'] += 3
                part['executions'] += 1
                part['states'] += 1
                ok = len(runs) == 1 and all(same(x, value) for x in got)
                key = 'served' if ok else 'rerun'
                part['outcomes'][key] = part['outcomes'].get(key, 0) + 1
                if not ok:
                    part['violations'].append({
                        'signature': {'clause': 'result-not-served',
                                      'target': target,
                                      'value': type(value).__name__},
                        'message': 'result-not-served: %s: a function '
                                   'returning %r was called 3 times with the '
                                   'same arguments: it ran %d time(s), the '
                                   'calls returned %r'
                                   % (target, value if len(repr(value)) < 40
                                      else repr(value)[:30] + '...',
                                      len(runs), [repr(x)[:30] for x in got]),
                        'replay': {'engine': 'GRID', 'module': 'props.c16',
                                   'unit': list(unit), 'generic': True}})
            finally:
                w.close()
    return part


def work(unit):
    if unit[0] == 'keys':
        return key_unit(unit)
    if unit[0] == 'results':
        return results_unit(unit)
    _, target, expire, typed, ignore, rnd, depth, seed, cap, chunk, nch = unit
    ab = [('call', a, k) for a, k in CALLS] + [('tick', 1)]
    ab = run.shuffled(ab, seed, 'memo')
    part = seq.bfs(lambda: MemoWorld(target, expire, typed, ignore, rnd), ab,
                   depth, allow=c03.allow_ticks(2), label='memo',
                   time_cap=cap, first=ab[chunk::nch])
    part['label'] = 'bfs/%s' % target
    return part


def main(tier, seed):
    rep = run.Report('C16', tier, seed, TECHNIQUE)
    cap = 200 if tier == 'quick' else 3000
    units = []
    for typed in (False, True):
        for ignore in IGNORES:
            for named in (True, False):
                units.append(('keys', typed, ignore, named, 'memoize'))
        units.append(('keys', typed, (), True, 'stampede'))
    depth = 2 if tier == 'quick' else 3
    configs = [('cache', None, False, ()), ('cache', 1, True, ()),
               ('cache', 0, False, ()), ('cache', None, False, (0, 'a')),
               ('fanout', 1, False, ()), ('fanout', 0, True, ()),
               ('index', None, True, ()), ('django', None, False, ()),
               ('django', 1, True, ('a',)), ('django', 0, False, ()),
               ('django-v2', None, False, ()), ('django-v2', 1, True, ()),
               ('stampede', 2, False, ()), ('stampede', 2, True, ('a',))]
    for target, expire, typed, ignore in configs:
        rnds = (None,) if target != 'stampede' else (1.0, 1e-300)
        for rnd in rnds:
            d = max(depth, 3) if target == 'stampede' else depth
            for ch in range(2):
                units.append(('bfs', target, expire, typed, ignore, rnd,
                              d, seed, cap, ch, 2))
    units.append(('results',))
    units = run.shuffled(units, seed)
    for part in run.pmap(work, units):
        rep.merge(part, part.get('label'))
    rep.bounds = {
        'keys': '%d signatures per configuration (<=3 positional, <=2 keyword '
                'arguments over %r) x typed x %d ignore sets x name '
                'given/derived, Cache.memoize and memoize_stampede'
                % (len(signatures()), VALUES, len(IGNORES)),
        'histories': 'depth %d over %d calls + ticks, expire None/0/1, '
                     'Cache/FanoutCache/Index/DjangoCache.memoize, '
                     'memoize_stampede with random in {hit, early}'
                     % (depth, len(CALLS)),
    }
    rep.assumptions = [
        'untyped: arguments that compare equal (1, 1.0, True) may share an '
        'entry; typed: they may not',
        'memoize_stampede\'s recompute thread is run inline at start()',
    ]
    return run.finish(rep)
