"""C12 - Index is a persistent insertion-ordered dictionary.

SEQ: BFS over mapping histories against collections.OrderedDict (results,
exception classes, order), incl. reopen / unpickle events and Indexes from
FanoutCache.index / DjangoCache.index.  SCHED: 2-3 clients doing lookups,
replacements (inline <-> file-backed), setdefault and popitem on shared
keys, linearizable WITHOUT the lookup-miss relaxation (a key that is
continuously present must always be found)."""
import collections
import copy
import pickle

from .. import run, sched, seq
from ..alpha import Snapshot
from ..env import ENV
from ..scen import ObjScenario, replay_obj
from ..spec import Raises, same
from ..worlds import World, call, val

TECHNIQUE = ('explicit-state BFS over Index histories compared step by step '
             'with OrderedDict + stateless exploration of all interleavings '
             'of 2-3 clients with a strict linearizability oracle')

BIG = ('$T', 12)
BIG2 = ('$T', 14)
TK = ('$t', 1, 2)       # composite key (1, 2)
OD = collections.OrderedDict


def small_files(directory):
    """Persist a small file threshold in the directory before the container
    opens it, so that 12-character values are file-backed."""
    import diskcache as dc
    import os
    if not os.path.exists(os.path.join(directory, 'cache.db')):
        dc.Cache(directory, disk_min_file_size=8,
                 eviction_policy='none').close()


def k_(x):
    return val(x)


def map_op(m, op, is_ref):
    name, a = op[0], op[1:]
    if name == 'get':
        return m[k_(a[0])]
    if name == 'txn':     # several operations in one transaction block
        if is_ref:
            return [map_op(m, o, True) for o in a[0]]
        with m.transact():
            return [map_op(m, o, False) for o in a[0]]
    if name == 'set':
        m[k_(a[0])] = val(a[1])
        return None
    if name == 'del':
        del m[k_(a[0])]
        return None
    if name == 'pop':
        return m.pop(k_(a[0]))
    if name == 'popd':
        return m.pop(k_(a[0]), 'dflt')
    if name == 'popitem':
        return m.popitem(last=a[0])
    if name == 'peekitem':
        if is_ref:
            if not m:
                raise KeyError('dictionary is empty')
            k = next(reversed(m)) if a[0] else next(iter(m))
            return (k, m[k])
        return m.peekitem(last=a[0])
    if name == 'setdefault':
        return m.setdefault(k_(a[0]), *[val(x) for x in a[1:]])
    if name == 'update_map':
        return m.update(OD((k_(k), val(v)) for k, v in a[0]))
    if name == 'update_pairs':
        return m.update([tuple(val(x) for x in p) for p in a[0]])
    if name == 'update_kw':
        return m.update(**dict(a[0]))
    if name == 'keys':
        return list(m.keys())
    if name == 'values':
        return list(m.values())
    if name == 'items':
        return list(m.items())
    if name == 'lenviews':
        return (len(m.keys()), len(m.values()), len(m.items()))
    if name == 'inkeys':
        return k_(a[0]) in m.keys()
    if name == 'initems':
        return (k_(a[0]), val(a[1])) in m.items()
    if name == 'invalues':
        return val(a[0]) in m.values()
    if name == 'contains':
        return k_(a[0]) in m
    if name == 'getd':
        return m.get(k_(a[0]), 'dflt')
    if name == 'iter':
        return list(m)
    if name == 'reversed':
        return list(reversed(m))
    if name == 'len':
        return len(m)
    if name == 'clear':
        return m.clear()
    if name == 'eq':
        kind, pairs = a
        pairs = [(k_(k), val(v)) for k, v in pairs]
        other = OD(pairs) if kind == 'od' else dict(pairs)
        return (m == other, m != other)
    raise ValueError(op)


class IndexWorld(World):
    def __init__(self, init=(), source='plain'):
        import diskcache as dc
        super().__init__()
        self.init, self.source = tuple(init), source
        ENV.reset(run.scratch())
        self.dc = dc
        pairs = [(k_(k), val(v)) for k, v in init]
        self.owner = None
        if source == 'plain':
            small_files(self.dir)
            self.m = dc.Index(self.dir, pairs)
        elif source in ('fanout', 'fanout-lru'):
            extra = {} if source == 'fanout' else {
                'eviction_policy': 'least-recently-used', 'size_limit': 1000,
                'cull_limit': 10}
            self.owner = dc.FanoutCache(self.dir, shards=2, **extra)
            self.m = self.owner.index('ix')
            self.m.update(pairs)
        else:
            from .c19 import make_django
            self.owner = make_django(self.dir, {'SHARDS': 2})
            self.m = self.owner.index('ix')
            self.m.update(pairs)
        self.ref = OD(pairs)

    def replay_args(self):
        return [list(self.init), self.source]

    def close(self):
        try:
            self.m.cache.close()
            if self.owner is not None:
                self.owner.close()
        except Exception:
            pass
        super().close()

    def apply(self, op):
        dc = self.dc
        name = op[0]
        problems = []
        if name == 'reopen':
            directory = self.m.directory
            self.m.cache.close()
            self.m = dc.Index(directory)
            got = want = None
        elif name == 'pickle':
            self.m = pickle.loads(pickle.dumps(self.m))
            got = want = None
        elif name == 'eqself':
            other = dc.Index(self.m.directory)
            got = (self.m == other, self.m != other)
            other.cache.close()
            want = (True, False)
        elif name == 'limit0':
            self.m.cache.reset('size_limit', 0)
            got = want = None
        elif name in ('txn_abort', 'txn_commit'):
            def run_block():
                with self.m.transact():
                    for b in op[1]:
                        map_op(self.m, b, False)
                    if name == 'txn_abort':
                        raise KeyboardInterrupt
            try:
                run_block()
                got = None
            except KeyboardInterrupt:
                got = 'aborted'
            except Exception as exc:
                got = Raises(type(exc).__name__)
            # reference: all or nothing
            import copy as _copy
            trial = _copy.deepcopy(self.ref)
            want = None
            for b in op[1]:
                r = call(map_op, trial, b, True)
                if isinstance(r, Raises):
                    want = r
                    break
            if want is None and name == 'txn_commit':
                self.ref = trial
            elif want is None:
                want = 'aborted'
        else:
            got = call(map_op, self.m, op, False)
            want = call(map_op, self.ref, op, True)
        if not same(got, want):
            problems.append(('result', '%r returned %r, OrderedDict says %r'
                             % (op, got, want)))
        have = call(lambda: list(self.m.items()))
        if not same(have, list(self.ref.items())):
            problems.append(('contents', 'after %r Index holds %r, OrderedDict '
                             'holds %r' % (op, have, list(self.ref.items()))))
        if len(self.m) != len(self.ref):
            problems.append(('len', 'len %d vs %d'
                             % (len(self.m), len(self.ref))))
        self.snap = Snapshot(self.m.directory)
        bad = self.snap.audit()
        if bad:
            problems.append(('bookkeeping', '; '.join(bad[:3])))
        return got, problems

    def canon(self):
        snap = getattr(self, 'snap', None) or Snapshot(self.m.directory)
        rows = tuple((repr(k), repr(v)) for k, v, e, t in snap.contents())
        return (rows, len(snap.files), self.m.cache.size_limit)

    def signature(self, hist, problems):
        return {'world': 'IndexWorld', 'source': self.source}


def alphabet():
    ops = []
    for k in ('a', 'b', TK):
        ops += [('get', k), ('set', k, 0), ('set', k, BIG), ('del', k),
                ('pop', k), ('popd', k), ('setdefault', k),
                ('setdefault', k, 5), ('contains', k), ('getd', k),
                ('inkeys', k)]
    ops += [('popitem', True), ('popitem', False), ('peekitem', True),
            ('peekitem', False),
            ('update_map', (('b', 1), ('a', BIG2))),
            ('update_pairs', (('c', 2), (TK, 3))),
            ('update_pairs', (('b', 1), ('a', BIG2), ('oops',), ('c', 2))),
            ('update_kw', (('a', 7), ('z', 8))),
            ('keys',), ('values',), ('items',), ('lenviews',),
            ('initems', 'a', 0), ('invalues', BIG),
            ('iter',), ('reversed',), ('len',), ('clear',),
            ('eq', 'od', (('a', 0), ('b', 0))), ('eq', 'od', (('b', 0), ('a', 0))),
            ('eq', 'dict', (('b', 0), ('a', 0))), ('eq', 'dict', (('a', 0),)),
            ('eqself',), ('reopen',), ('pickle',), ('limit0',),
            ('txn_abort', (('set', 'a', BIG2), ('set', 'z', 1))),
            ('txn_abort', (('popitem', True),)),
            ('txn_commit', (('set', 'b', BIG2), ('set', 'y', 2)))]
    return ops


STARTS = [(), (('a', 0), ('b', 0)), (('b', BIG), ('a', 0), (TK, 1)),
          (('a', BIG),)]


# ---------------------------------------------------------------- SCHED ---

class IndexScenario(ObjScenario):
    replay_module = 'props.c12'

    def make(self, directory):
        import diskcache as dc
        small_files(directory)
        return dc.Index(directory)

    def do(self, m, op):
        return call(map_op, m, op, False)

    def spec0(self):
        return OD()

    def apply(self, spec, op):
        return call(map_op, spec, op, True)

    def final_view(self):
        return [(k, v) for k, v, e, t in Snapshot(self.dir).contents()]

    def final_ok(self, spec):
        return same(self.final_view(), list(spec.items()))


def sched_plan(tier):
    GET, SETI, SETF, SETF2 = ('get', 'a'), ('set', 'a', 1), ('set', 'a', BIG), \
        ('set', 'a', BIG2)
    SD = ('setdefault', 'a', 9)
    PI, PIF = ('popitem', True), ('popitem', False)
    init_f = [('set', 'a', ('$T', 13))]
    init_i = [('set', 'a', 7)]
    init_2 = [('set', 'b', 1), ('set', 'a', ('$T', 13))]
    units = [
        ([[GET], [SETF]], init_f, None),       # lookup vs file replacement
        ([[GET], [SETI]], init_f, None),
        ([[GET], [SETF]], init_i, None),
        ([[('getd', 'a')], [SETF2]], init_f, None),
        ([[('contains', 'a')], [SETF]], init_f, None),
        ([[SD], [SD]], [], None),
        ([[SD], [('setdefault', 'a', BIG)]], [], None),
        ([[SD], [('del', 'a')]], init_i, None),
        ([[PI], [SETF]], init_2, None),
        ([[PI], [('set', 'b', 5)]], init_2, None),
        ([[PI], [PI]], init_2, None),
        ([[PI], [PIF]], init_2, None),
        ([[('pop', 'a')], [('pop', 'a')]], init_f, None),
        ([[('items',)], [SETF]], init_2, None),
        ([[GET], [SETF], [SETI]], init_f, 1 if tier == 'quick' else 2),
        # two replacements in a row while one lookup is in flight
        ([[GET], [SETF, SETF2]], init_f, 3),
        ([[('getd', 'a')], [SETF2, SETF]], init_f, 3),
        ([[SD], [SD], [GET]], [], 1 if tier == 'quick' else 2),
        # a transaction block that replaces a file-backed value: the key is
        # present throughout, and both writes appear together
        ([[GET], [('txn', (SETF, ('set', 'b', 2)))]], init_2, None),
        ([[('get', 'b'), GET], [('txn', (SETF, ('set', 'b', 2)))]], init_2,
         2 if tier == 'quick' else None),
    ]
    if tier == 'thorough':
        units += [
            ([[GET, GET], [SETF, SETI]], init_f, None),
            ([[GET], [SETF], [SETF2]], init_f, 2),
            ([[PI], [SETF], [GET]], init_2, 3),
            ([[SD, GET], [('del', 'a'), SD]], init_i, None),
        ]
    return units


def work(unit):
    kind = unit[0]
    if kind == 'bfs':
        _, init, source, depth, seed, cap, chunk, nchunks = unit
        ab = run.shuffled(alphabet(), seed, 'ix')
        part = seq.bfs(lambda: IndexWorld(init, source), ab, depth,
                       label='index', time_cap=cap,
                       first=ab[chunk::nchunks])
        part['label'] = 'bfs/%s' % source
        return part
    _, programs, init, bound, mode, cap = unit
    part = sched.explore(lambda: IndexScenario(programs, init, mode),
                         bound=bound, por=True, time_cap=cap)
    part['label'] = 'sched/%dc' % len(programs)
    return part


def main(tier, seed):
    rep = run.Report('C12', tier, seed, TECHNIQUE)
    cap = 200 if tier == 'quick' else 3000
    depth = 2 if tier == 'quick' else 3
    units = []
    nch = 4
    for ch in range(nch):
        units += [('bfs', init, 'plain', depth, seed, cap, ch, nch)
                  for init in STARTS]
        units.append(('bfs', (('a', 0),), 'fanout', depth, seed, cap, ch, nch))
        units.append(('bfs', (('b', BIG),), 'django', depth, seed, cap, ch,
                      nch))
        units.append(('bfs', (('a', 0), ('b', 1)), 'fanout-lru', depth, seed,
                      cap, ch, nch))
    for programs, init, bound in sched_plan(tier):
        for mode in (('own',) if tier == 'quick' else ('own', 'shared')):
            units.append(('sched', programs, init, bound, mode, cap))
    units = run.shuffled(units, seed)
    for part in run.pmap(work, units):
        rep.merge(part, part.get('label'))
    rep.bounds = {
        'bfs': 'depth %d from %d start states; %d-operation alphabet over '
               'keys a, b, (1, 2); values inline and file-backed'
               % (depth, len(STARTS) + 2, len(alphabet())),
        'sched': '2 clients all interleavings; 3 clients <= 2/3 preemptions',
    }
    rep.assumptions = [
        'equality is compared against OrderedDict and dict operands from a '
        'fixed menu',
    ]
    return run.finish(rep)


def replay(rp):
    return replay_obj(IndexScenario, rp)
