"""C17 - check(fix=True) repairs any out-of-band damage; plain check() only
reports.

GRID: every subset (size <= 3 quick / <= 4 thorough) of 20 damage instances
(value file deleted / truncated to 0 / truncated to half / extended, for a
binary, a text and a pickle item; unknown files at three places; empty
directories; wrong item and size counters) on a Cache and on a 2-shard
FanoutCache holding inline and file-backed items; plus relative cache
directories and a cache with more than 100 file-backed items."""
import itertools
import os
import warnings

from .. import run
from ..alpha import Snapshot, tree
from ..env import ENV, real_connect, real_open
from ..spec import Raises, same
from ..worlds import call

TECHNIQUE = ('bounded-exhaustive enumeration of damage combinations applied '
             'behind the library\'s back; oracle on check(), check(fix=True), '
             'second check() and readability of every remaining item')

ITEMS = {
    'n': 7,
    'bin': b'B' * 40,
    'text': '\xe9' + 'T' * 39,
    'pickle': ('p' * 40, 1),
    'bin2': b'C' * 40,
}
FILEY = ('bin', 'text', 'pickle')

DAMAGES = []
for item in FILEY:
    for how in ('delete', 'trunc0', 'half', 'extend'):
        DAMAGES.append((how, item))
DAMAGES += [('unknown', 'top'), ('unknown', 'valuedir'), ('unknown', 'nested'),
            ('emptydir', 'top'), ('emptydir', 'nested'),
            ('count', 1), ('count', -1), ('size', 7)]


def compatible(combo):
    files = [d[1] for d in combo if d[0] in ('delete', 'trunc0', 'half',
                                              'extend')]
    if len(files) != len(set(files)):
        return False
    if sum(1 for d in combo if d[0] == 'count') > 1:
        return False
    return True


def marker(d, paths):
    how, what = d
    if how == 'delete':
        return ('file not found', paths[what])
    if how in ('trunc0', 'half', 'extend'):
        return ('wrong file size', paths[what])
    if how == 'unknown':
        return ('unknown file', paths['unknown-' + what])
    if how == 'emptydir':
        return ('empty directory', paths['emptydir-' + what])
    if how == 'count':
        return ('Settings.count', '')
    return ('Settings.size', '')


def apply_damage(root, shard_dir, combo):
    """-> paths used by the damage (for matching warnings)."""
    snap = Snapshot(shard_dir)
    paths = {}
    by_key = {r['pykey']: r for r in snap.rows}
    for item in FILEY:
        if item in by_key and by_key[item]['filename']:
            paths[item] = os.path.join(shard_dir, by_key[item]['filename'])
    some_valuedir = None
    for r in snap.rows:
        if r['filename']:
            some_valuedir = os.path.dirname(os.path.join(shard_dir,
                                                         r['filename']))
    for how, what in combo:
        if how == 'delete':
            os.remove(paths[what])
        elif how == 'trunc0':
            with real_open(paths[what], 'wb'):
                pass
        elif how == 'half':
            size = os.path.getsize(paths[what])
            with real_open(paths[what], 'r+b') as f:
                f.truncate(size // 2)
        elif how == 'extend':
            with real_open(paths[what], 'ab') as f:
                f.write(b'xyz')
        elif how == 'unknown':
            if what == 'top':
                p = os.path.join(shard_dir, 'stray.txt')
            elif what == 'valuedir':
                p = os.path.join(some_valuedir, 'stray.val')
            else:
                p = os.path.join(shard_dir, 'n1', 'n2', 'u.val')
                os.makedirs(os.path.dirname(p))
            with real_open(p, 'wb') as f:
                f.write(b'debris')
            paths['unknown-' + what] = p
        elif how == 'emptydir':
            p = os.path.join(shard_dir, 'e1') if what == 'top' else \
                os.path.join(shard_dir, 'e2', 'e3')
            os.makedirs(p)
            paths['emptydir-' + what] = p
        elif how in ('count', 'size'):
            con = real_connect(os.path.join(shard_dir, 'cache.db'),
                               isolation_level=None)
            con.execute('UPDATE Settings SET value = value + ? WHERE key = ?',
                        (what, how))
            con.close()
    return paths


def lib_check(obj, fix=False):
    with warnings.catch_warnings():
        warnings.simplefilter('always')
        try:
            warns = obj.check(fix=fix)
        except Exception as exc:
            return ['raised %s: %s' % (type(exc).__name__, exc)]
    return [str(w.message) for w in warns]


def build(kind, root):
    import diskcache as dc
    ENV.reset(run.scratch())
    if kind == 'cache':
        obj = dc.Cache(root, disk_min_file_size=8)
        shards = [root]
    elif kind == 'relative':
        # the caller has made the parent directory the working directory
        obj = dc.Cache(os.path.basename(root), disk_min_file_size=8)
        shards = [root]
    else:
        obj = dc.FanoutCache(root, shards=2, disk_min_file_size=8)
        shards = [root + '/000', root + '/001']
    for k, v in ITEMS.items():
        obj[k] = v
    return obj, shards


def state(shards):
    return tuple((Snapshot(d).canon(), tuple(tree(d))) for d in shards)


def case(kind, combo, part, shard_index=0):
    root = run.fresh_dir('k')
    cwd = os.getcwd()
    if kind == 'relative':
        root = os.path.join(root, 'cache')
        os.makedirs(os.path.dirname(root))
        os.chdir(os.path.dirname(root))
    try:
        obj, shards = build(kind, root)
    except BaseException:
        os.chdir(cwd)
        raise
    try:
        # damage goes to the shard holding the file-backed items involved
        target = shards[0]
        if len(shards) > 1:
            target = shards[shard_index]
            # only damage files that live in this shard
            here = {r['pykey'] for r in Snapshot(target).rows}
            combo = tuple(d for d in combo if d[0] not in (
                'delete', 'trunc0', 'half', 'extend') or d[1] in here)
            if not combo:
                return
        obj.close()
        paths = apply_damage(root, target, combo)
        before = state(shards)
        plain = lib_check(obj)
        part['transitions'] += 1
        part['executions'] += 1
        problems = []
        if state(shards) != before:
            problems.append(('plain-check-changed-something',
                             'check() without fix altered the directory'))
        for d in combo:
            text, path = marker(d, paths)
            if path:
                path = os.path.relpath(path, target)   # relative caches
            if not any(text in w and path in w for w in plain):
                problems.append(('damage-not-reported',
                                 'check() does not report %r (%s %s); it says '
                                 '%r' % (d, text, path, plain[:4])))
        fixed = lib_check(obj, fix=True)

        def norm(w):
            # counters are reported with their current numbers, which the
            # repair of row sizes legitimately changes: compare the kind
            for kind_ in ('Settings.count', 'Settings.size'):
                if w.startswith(kind_):
                    return kind_
            if w.startswith('wrong file size'):
                return w.split(',')[0]
            return w
        fixed_n = {norm(w) for w in fixed}
        for w in plain:
            if norm(w) not in fixed_n:
                problems.append(('fix-reports-less',
                                 'check() reports %r but check(fix=True) does '
                                 'not' % (w,)))
                break
        second = lib_check(obj)
        if second:
            problems.append(('repair-incomplete',
                             'after check(fix=True) a second check() still '
                             'reports %r' % (second[:3],)))
        damaged = {d[1] for d in combo if d[0] in ('delete', 'trunc0', 'half',
                                                   'extend')}
        for k, v in ITEMS.items():
            got = call(obj.get, k, 'MISSING')
            if k in damaged:
                if isinstance(got, Raises):
                    problems.append(('remaining-item-unreadable',
                                     'after the repair get(%r) raises %r'
                                     % (k, got)))
            elif not same(got, v):
                problems.append(('undamaged-item-touched',
                                 'after the repair get(%r) -> %r, stored %r'
                                 % (k, got, v)))
        okey = '+'.join(sorted({d[0] for d in combo}))
        part['outcomes'][okey] = part['outcomes'].get(okey, 0) + 1
        for clause, msg in problems:
            hows = sorted({d[0] for d in combo})
            part['violations'].append({
                'signature': {'clause': clause, 'kind': kind,
                              'truncated_pickle': any(
                                  d[0] in ('trunc0', 'half')
                                  and d[1] == 'pickle' for d in combo),
                              'damage': '+'.join(hows) if len(hows) < 3
                              else 'several'},
                'message': '%s: %s with damage %r: %s' % (clause, kind,
                                                          combo, msg),
                'replay': {'engine': 'GRID', 'module': 'props.c17',
                           'kind': kind, 'combo': [list(d) for d in combo],
                           'shard': shard_index}})
    finally:
        os.chdir(cwd)
        try:
            obj.close()
        except Exception:
            pass
        run.drop(root if kind != 'relative' else os.path.dirname(root))


def journal_unit(part):
    """SQLite journal modes other than the default WAL keep other side files
    next to cache.db (cache.db-journal): an undamaged cache reports nothing
    at any point of a write/check history, and a repair works."""
    import diskcache as dc
    for mode in ('wal', 'delete', 'truncate', 'persist'):
        for kind in ('cache', 'fanout'):
            root = run.fresh_dir('j')
            ENV.reset(run.scratch())
            kw = dict(disk_min_file_size=8, sqlite_journal_mode=mode)
            obj = dc.Cache(root, **kw) if kind == 'cache' else \
                dc.FanoutCache(root, shards=2, **kw)
            problems = []
            try:
                for k, v in ITEMS.items():
                    obj[k] = v
                steps = []
                steps.append(('check() after writes', lib_check(obj)))
                obj['later'] = 'x' * 20
                steps.append(('check(fix=True) after another write',
                              lib_check(obj, fix=True)))
                obj['later2'] = 'y' * 20
                del obj['later']
                steps.append(('check() after the repair and more writes',
                              lib_check(obj)))
                for what, said in steps:
                    if said:
                        problems.append(('undamaged-cache-reported',
                                         '%s reports %r' % (what, said[:3])))
                # one missing value file: repaired without an error
                shard = root if kind == 'cache' else root + '/000'
                rows = [r for r in Snapshot(shard).rows if r['filename']]
                if rows:
                    os.remove(os.path.join(shard, rows[0]['filename']))
                    said = lib_check(obj, fix=True)
                    if any(w.startswith('raised') for w in said) or \
                            not any('file not found' in w for w in said):
                        problems.append(('repair-failed',
                                         'check(fix=True) of a missing value '
                                         'file says %r' % (said[:3],)))
                    again = lib_check(obj)
                    if again:
                        problems.append(('repair-incomplete',
                                         'second check() reports %r'
                                         % (again[:3],)))
                    obj['after'] = 1
                    if call(obj.get, 'after') != 1:
                        problems.append(('unusable-after-repair',
                                         'set/get after the repair fails'))
            finally:
                try:
                    obj.close()
                except Exception:
                    pass
                run.drop(root)
            part['transitions'] += 4
            part['executions'] += 1
            okey = 'journal-' + mode
            part['outcomes'][okey] = part['outcomes'].get(okey, 0) + 1
            for clause, msg in problems:
                part['violations'].append({
                    'signature': {'clause': clause, 'kind': kind,
                                  'journal_mode': mode},
                    'message': '%s: %s with sqlite_journal_mode=%r: %s'
                               % (clause, kind, mode, msg),
                    'replay': {'engine': 'GRID', 'module': 'props.c17',
                               'kind': 'journal', 'combo': [[mode, kind]],
                               'shard': 0}})


def locked_unit(part):
    """One shard is damaged and another client holds that shard's write
    lock: FanoutCache.check() either fails (Timeout) or reports the damage;
    it never returns a report that silently leaves the shard out."""
    import diskcache as dc
    from ..env import real_connect
    for si in (0, 1):
        for fix in (False, True):
            root = run.fresh_dir('q')
            obj, shards = build('fanout', root)
            other = None
            try:
                rows = [r for r in Snapshot(shards[si]).rows if r['filename']]
                if not rows:
                    continue
                victim = os.path.join(shards[si], rows[0]['filename'])
                os.remove(victim)
                other = real_connect(os.path.join(shards[si], 'cache.db'),
                                     timeout=0, isolation_level=None)
                other.execute('BEGIN IMMEDIATE')
                said = lib_check(obj, fix=fix)
                part['transitions'] += 1
                part['executions'] += 1
                raised = any(w.startswith('raised') for w in said)
                okey = 'locked-shard-' + ('raises' if raised else 'reports')
                part['outcomes'][okey] = part['outcomes'].get(okey, 0) + 1
                if not raised and not any(
                        'file not found' in w and rows[0]['filename'] in w
                        for w in said):
                    part['violations'].append({
                        'signature': {'clause': 'damage-not-reported',
                                      'kind': 'fanout-locked-shard'},
                        'message': 'damage-not-reported: shard %d misses a '
                                   'value file and is write-locked by another '
                                   'client; FanoutCache.check(fix=%r) '
                                   'returned %r' % (si, fix, said[:3]),
                        'replay': {'engine': 'GRID', 'module': 'props.c17',
                                   'kind': 'locked', 'combo': [[si, fix]],
                                   'shard': si}})
            finally:
                if other is not None:
                    other.close()
                try:
                    obj.close()
                except Exception:
                    pass
                run.drop(root)


def many_unit(part):
    """More than 100 file-backed items (paging inside check), some value
    files missing at several positions."""
    import diskcache as dc
    for missing in ((3,), (3, 50), (0, 99, 100, 101, 150), (149,)):
        root = run.fresh_dir('k')
        ENV.reset(run.scratch())
        obj = dc.Cache(root, disk_min_file_size=8)
        try:
            for i in range(151):
                obj[i] = b'v%03d' % i * 4
            snap = Snapshot(root)
            for i in missing:
                os.remove(os.path.join(root, snap.rows[i]['filename']))
            plain = lib_check(obj)
            fixed = lib_check(obj, fix=True)
            second = [w for w in lib_check(obj)]
            part['transitions'] += 1
            part['executions'] += 1
            lost = [i for i in range(151) if i not in missing
                    and obj.get(i) != b'v%03d' % i * 4]
            if second or lost or sum('file not found' in w
                                     for w in plain) != len(missing):
                part['violations'].append({
                    'signature': {'clause': 'many-files', 'kind': 'cache'},
                    'message': 'many-files: 151 file-backed items, files of '
                               '%r missing: plain reports %d missing, second '
                               'check %r, undamaged items lost %r'
                               % (missing, sum('file not found' in w
                                               for w in plain), second[:2],
                                  lost[:5]),
                    'replay': {'engine': 'GRID', 'module': 'props.c17',
                               'kind': 'many', 'missing': list(missing)}})
        finally:
            obj.close()
            run.drop(root)


def sched_unit(unit):
    """check() / check(fix=True) on an undamaged cache while another client
    writes: nothing may be reported, nothing may be lost (all schedules)."""
    from .. import sched
    from ..scen import CacheScenario
    from . import c05
    _, programs, init, bound, cap = unit

    class CheckScenario(CacheScenario):
        # A value file that a writer has just written (row not committed yet)
        # or is about to remove (row already gone) is legitimately seen as
        # an unknown file by a concurrent check(); but every row check() looks
        # at under its lock has its file, with the recorded size.
        def check(self, ex):
            problems = []
            for c in ex.clients:
                for op, result, _, _ in c.results:
                    if op[0] != 'check':
                        continue
                    badk = [k for k in (result if isinstance(result, list)
                                        else [repr(result)])
                            if k != 'unknown file']
                    if badk:
                        problems.append(('spurious-report', 'check() on an '
                                         'undamaged cache reports %r' % badk))
            bad = Snapshot(self.dir).audit()
            if bad:
                problems.append(('bookkeeping', '; '.join(bad[:3])))
            return problems

    part = sched.explore(
        lambda: CheckScenario(programs, c05.INITS[init], 'own',
                              {'disk_min_file_size': 8}),
        bound=bound, por=True, time_cap=cap)
    part['label'] = 'sched/check'
    return part


def work(unit):
    if unit[0] == 'sched':
        return sched_unit(unit)
    kind, combos = unit
    part = {'states': 0, 'transitions': 0, 'executions': 0, 'violations': [],
            'outcomes': {}, 'samples': [], 'caps': [], 'label': 'grid/' + kind}
    if kind == 'many':
        many_unit(part)
        part['states'] = 4
        return part
    if kind == 'journal':
        journal_unit(part)
        locked_unit(part)
        part['states'] = 12
        return part
    for combo in combos:
        part['states'] += 1
        if kind == 'fanout':
            for si in (0, 1):
                case(kind, combo, part, si)
        else:
            case(kind, combo, part)
    part['samples'].append({'kind': kind, 'damage': [list(d) for d in combos[0]]})
    return part


def main(tier, seed):
    rep = run.Report('C17', tier, seed, TECHNIQUE)
    maxk = 3 if tier == 'quick' else 4
    combos = [c for k in range(1, maxk + 1)
              for c in itertools.combinations(DAMAGES, k) if compatible(c)]
    combos = run.shuffled(combos, seed)
    units = []
    n = 40
    for i in range(0, len(combos), n):
        units.append(('cache', combos[i:i + n]))
    small = [c for c in combos if len(c) <= 2]
    for i in range(0, len(small), n):
        units.append(('fanout', small[i:i + n]))
    singles = [c for c in combos if len(c) <= (1 if tier == 'quick' else 2)]
    for i in range(0, len(singles), n):
        units.append(('relative', singles[i:i + n]))
    units.append(('many', ()))
    units.append(('journal', ()))
    BIGV = ('$T', 12)
    for fix in (False,):
        for w in (('set', 'a', BIGV, None, None), ('pop', 'a', 0),
                  ('delete', 'a'), ('set', 'c', ('$B', 14), None, None)):
            units.append(('sched', [[('check', fix)], [w]], 'file',
                          None if tier == 'thorough' else 3,
                          200 if tier == 'quick' else 3000))
    for part in run.pmap(work, units):
        rep.merge(part, part.get('label'))
    rep.bounds = {
        'damage_instances': len(DAMAGES),
        'journal_modes': 'wal/delete/truncate/persist x Cache/FanoutCache: an '
                         'undamaged cache reports nothing along a write/'
                         'check/repair history; a missing value file is '
                         'repaired; a damaged shard that another client '
                         'holds locked is reported or the check fails',
        'concurrent': 'plain check() on an undamaged cache against 4 writes '
                      'of a file-backed value by another client, all '
                      'schedules (<= 3 preemptions in quick): only in-flight '
                      'value files may be reported',
        'subsets': 'all compatible subsets of size <= %d on Cache (%d); size '
                   '<= 2 on each shard of a 2-shard FanoutCache; size <= %d '
                   'on a Cache opened with a relative directory; 151 '
                   'file-backed items with missing files at 4 position sets'
                   % (maxk, len(combos), 1 if tier == 'quick' else 2),
    }
    rep.assumptions = [
        'check(fix=True) may report more than plain check() (directories it '
        'empties itself), never less',
        'a damaged binary/text item may come back with the damaged content; '
        'it must be readable',
        'debris left by killed processes and failed writes is covered by the '
        'unknown-file / empty-directory instances (C07 and C08 leave nothing '
        'else)',
    ]
    return run.finish(rep)


def replay(rp):
    run._worker_init()
    part = {'states': 0, 'transitions': 0, 'executions': 0, 'violations': [],
            'outcomes': {}}
    if rp['kind'] == 'many':
        many_unit(part)
    else:
        case(rp['kind'], tuple(tuple(d) for d in rp['combo']), part,
             rp.get('shard', 0))
    for v in part['violations'][:5]:
        print('REPRODUCED:', v['message'])
    return 1 if part['violations'] else 0
