"""C02 - keys address entries by documented equality and never alias.

GRID: every ordered pair of a ~75-key alphabet, on an empty cache, for every
pickle protocol and for JSONDisk; plus paging boundaries for sorted iteration
with twin (key, raw) rows."""
import json
import pickle
import pickletools

from .. import run
from ..env import ENV
from ..spec import Raises, norm_key, same, sort_key
from ..worlds import call

TECHNIQUE = ('bounded-exhaustive enumeration of all ordered key pairs x '
             'serializer on the real library; oracle = documented key '
             'identity rule')


def shared_pair():
    s = 'xy' * 3
    return (s, s)


def unshared_pair():
    return (''.join(['xy'] * 3), ''.join(['x', 'yxyxy']))


def alphabet(proto):
    keys = [
        '', 'a', '\xe9', 'a\x00', '1', 'a-500000000000000',
        b'', b'a', b'\xc3\xa9', b'1', b'a\x00',
        0, 1, -1, 2 ** 53, 2 ** 53 + 1, 2 ** 63 - 1, -2 ** 63,
        2 ** 63, -2 ** 63 - 1, 2 ** 64, 10 ** 30,
        0.0, -0.0, 1.0, -1.0, 1.5, 2.0 ** 53, 2.0 ** 63, -2.0 ** 63,
        float('inf'), float('-inf'), 5e-324, 1e308,
        True, False, None,
        (), (1,), (1.0,), (True,), ('a',), (b'a',), (1, 'a'), (1.0, 'a'),
        (True, 'a'), ((1,),), (None,), (0,), (0.0,), ('1',),
        shared_pair(), unshared_pair(),
        frozenset([1]), frozenset([1.0]), frozenset(),
    ]
    # bytes equal to the serialized form of every pickled key
    twins = []
    for k in keys:
        if norm_key(k)[0] == 'o':
            data = pickletools.optimize(pickle.dumps(k, protocol=proto))
            twins.append(bytes(data))
    out, seen = [], set()
    for k in keys + twins:
        r = (type(k).__name__, repr(k), pickle.dumps(k, protocol=proto))
        if r not in seen:
            seen.add(r)
            out.append(k)
    return out


def json_alphabet():
    return ['', 'a', '1', 0, 1, -1, 1.0, 1.5, 2 ** 63, 2 ** 64, True, False,
            None, [], [1], [1.0], ['a'], [1, 'a'], [[1]], {'a': 1}, {'a': 1.0},
            '[1]', 'null', 'true']


def tag(k):
    return '%s:%r' % (type(k).__name__, k if not isinstance(k, (bytes, str))
                      or len(k) < 20 else k[:18])


def pickle_identity(k, proto):
    """Identity of a composite key as the caveat documents it: its
    serialization.  Used only to classify the documented sharing caveat."""
    return pickletools.optimize(pickle.dumps(k, protocol=proto))


def work(unit):
    import diskcache as dc
    disk, proto, tier = unit
    root = run.fresh_dir('g')
    ENV.reset(run.scratch())
    part = {'states': 0, 'transitions': 0, 'executions': 0, 'violations': [],
            'outcomes': {}, 'samples': [], 'caps': [], 'label': 'pairs/' + disk}
    if disk == 'json':
        cache = dc.Cache(root, disk=dc.JSONDisk)
        keys = json_alphabet()
        ident = lambda k: json.dumps(k)           # noqa: E731
        back = lambda k: json.loads(json.dumps(k))  # noqa: E731
    else:
        cache = dc.Cache(root, disk_pickle_protocol=proto)
        keys = alphabet(proto)
        ident = norm_key
        back = lambda k: k                        # noqa: E731

    def bad(clause, k1, k2, msg, extra=None):
        sig = {'clause': clause, 'disk': disk,
               'types': '%s/%s' % (type(k1).__name__, type(k2).__name__)}
        if extra:
            sig.update(extra)
        part['violations'].append({
            'signature': sig,
            'message': '%s: keys %s and %s (%s protocol %s): %s' % (
                clause, tag(k1), tag(k2), disk, proto, msg),
            'replay': {'engine': 'GRID', 'module': 'props.c02',
                       'unit': list(unit), 'k1': repr(k1), 'k2': repr(k2)},
        })

    try:
        part['states'] = len(keys)
        for k1 in keys:
            for k2 in keys:
                cache.clear()
                r1 = call(cache.set, k1, 'A')
                r2 = call(cache.set, k2, 'B')
                part['transitions'] += 1
                part['executions'] += 1
                if isinstance(r1, Raises) or isinstance(r2, Raises):
                    bad('store-raised', k1, k2, '%r %r' % (r1, r2))
                    continue
                equal = ident(k1) == ident(k2)
                n = len(cache)
                g1, g2 = call(cache.get, k1), call(cache.get, k2)
                c1, c2 = k1 in cache, k2 in cache
                listed = call(lambda: list(cache))
                fwd = call(lambda: list(cache.iterkeys()))
                rev = call(lambda: list(cache.iterkeys(reverse=True)))
                okey = 'same' if n == 1 else 'distinct'
                part['outcomes'][okey] = part['outcomes'].get(okey, 0) + 1
                extra = None
                if disk != 'json' and not equal and \
                        norm_key(k1)[0] == 'o' == norm_key(k2)[0] and k1 == k2 \
                        and type(k1) is type(k2) is tuple \
                        and [type(x) for x in k1] == [type(x) for x in k2]:
                    extra = {'caveat': 'sharing'}
                if equal:
                    want_list = [back(k1)]
                    ok = (n == 1 and g1 == 'B' and g2 == 'B' and c1 and c2)
                    if not ok:
                        sharing = (disk != 'json' and norm_key(k1)[0] == 'o'
                                   and pickle_identity(k1, proto)
                                   != pickle_identity(k2, proto))
                        bad('equal-keys-split', k1, k2,
                            'len=%d get=%r/%r' % (n, g1, g2),
                            {'caveat': 'sharing'} if sharing else None)
                        continue
                else:
                    want_list = [back(k1), back(k2)]
                    ok = (n == 2 and g1 == 'A' and g2 == 'B' and c1 and c2)
                    if not ok:
                        bad('distinct-keys-alias', k1, k2,
                            'len=%d get=%r/%r in=%r/%r' % (n, g1, g2, c1, c2),
                            extra)
                        continue
                if not same(listed, want_list):
                    bad('iteration-keys', k1, k2, 'list(cache)=%r want %r'
                        % (listed, want_list))
                # every other accessor that hands keys back
                rlisted = call(lambda: list(reversed(cache)))
                ends = (call(cache.peekitem, last=False),
                        call(cache.peekitem, last=True))
                want_ends = ((want_list[0], 'B' if equal else 'A'),
                             (want_list[-1], 'B'))
                if not same(rlisted, want_list[::-1]) or \
                        not same(ends, want_ends):
                    bad('returned-keys', k1, k2, 'reversed(cache)=%r, '
                        'peekitem first/last=%r; want %r and %r'
                        % (rlisted, ends, want_list[::-1], want_ends))
                if disk != 'json':
                    want_sorted = sorted(
                        want_list, key=lambda k: sort_key(k, proto))
                    if not same(fwd, want_sorted) or \
                            not same(rev, want_sorted[::-1]):
                        bad('sorted-iteration', k1, k2,
                            'iterkeys=%r reverse=%r want %r'
                            % (fwd, rev, want_sorted))
                else:
                    if sorted(map(repr, fwd)) != sorted(map(repr, want_list)) \
                            or sorted(map(repr, rev)) != sorted(
                                map(repr, want_list)):
                        bad('sorted-iteration', k1, k2,
                            'iterkeys=%r reverse=%r want %r'
                            % (fwd, rev, want_list))
        if disk != 'json':
            paging(cache, keys, proto, part, bad, tier)
        if len(part['samples']) < 1:
            part['samples'].append({'disk': disk, 'protocol': proto,
                                    'keys': [tag(k) for k in keys[:40]],
                                    'pairs': len(keys) ** 2})
    finally:
        cache.close()
        run.drop(root)
    return part


def paging(cache, keys, proto, part, bad, tier):
    """Sorted iteration pages 1 row then 100 rows: put every twin pair
    (bytes == pickle of another key) and every numeric tie at every position
    relative to the page boundaries."""
    twins = []
    for k in keys:
        if norm_key(k)[0] == 'o':
            data = bytes(pickletools.optimize(pickle.dumps(k, protocol=proto)))
            twins.append((k, data))
    twins = twins[:6] if tier == 'quick' else twins
    for k, data in twins:
        for fillers in (0, 1, 2, 98, 99, 100, 101, 199, 200):
            for side in ('below', 'above'):
                cache.clear()
                # fillers sort below every blob when they are integers, above
                # when they are larger blobs
                fill = [i for i in range(fillers)] if side == 'below' else \
                    [b'\xff' * 3 + bytes([i]) for i in range(fillers)]
                for f in fill:
                    cache[f] = 0
                stored = (call(cache.__setitem__, k, 1),
                          call(cache.__setitem__, data, 2))
                if any(isinstance(r, Raises) for r in stored):
                    bad('store-raised', k, data, '%r' % (stored,))
                    continue
                want = sorted(fill + [k, data],
                              key=lambda x: sort_key(x, proto))
                fwd = call(lambda: list(cache.iterkeys()))
                rev = call(lambda: list(cache.iterkeys(reverse=True)))
                part['transitions'] += 1
                part['executions'] += 1
                if not same(fwd, want) or not same(rev, want[::-1]):
                    lost = [x for x in want if not any(same(x, y) for y in fwd)]
                    lostr = [x for x in want
                             if not any(same(x, y) for y in rev)]
                    bad('sorted-iteration-paging', k, data,
                        '%d fillers %s: forward lost %r, reverse lost %r'
                        % (fillers, side, lost[:3], lostr[:3]))


def main(tier, seed):
    rep = run.Report('C02', tier, seed, TECHNIQUE)
    protos = range(0, 6) if tier == 'thorough' else (0, 2, 5)
    units = [('pickle', p, tier) for p in protos] + [('json', None, tier)]
    units = run.shuffled(units, seed)
    for part in run.pmap(work, units):
        rep.merge(part, part.get('label'))
    rep.bounds = {
        'pairs': 'all ordered pairs of the key alphabet (incl. bytes equal to '
                 'each pickled key) per serializer',
        'serializers': ['Disk protocol %d' % p for p in protos] + ['JSONDisk'],
        'paging': 'twin rows at 0,1,2,98..101,199,200 fillers on either side',
    }
    rep.assumptions = [
        'NaN keys and user-defined key classes are outside the key domain',
        'JSONDisk key identity is the JSON text of the key (1 and 1.0 are '
        'distinct JSON texts); the numeric-equality clause is checked for '
        'Disk only',
    ]
    return run.finish(rep)


def replay(rp):
    run._worker_init()
    part = work(tuple(rp['unit']))
    hits = [v for v in part['violations']
            if v['replay']['k1'] == rp['k1'] and v['replay']['k2'] == rp['k2']]
    for v in hits[:3]:
        print('REPRODUCED:', v['message'])
    return 1 if hits else 0
