"""C09 - eviction starts only at the size limit and follows the configured
policy order.  SEQ: BFS over write/read histories of file-backed values of
two sizes against a relational reference (which victims are admissible)."""
import shutil

from .. import run, seq
from ..alpha import Snapshot
from ..env import ENV
from ..spec import norm_key, same
from ..worlds import CacheWorld, val
from . import c03

TECHNIQUE = ('explicit-state BFS over read/write histories of the real Cache '
             'at its size limit; relational reference model of admissible '
             'victims per eviction policy')

SMALL = ('$B', 40)
LARGE = ('$B', 120)
ROOM = 240          # bytes of value files that fit below the limit
                    # (= 2 large = 6 small: the limit can be hit exactly)
_empty = {}


def empty_volume(policy):
    """volume() of an empty cache with this policy (its page overhead)."""
    import diskcache
    if policy not in _empty:
        path = run.fresh_dir('ev')
        ENV.reset(run.scratch())
        c = diskcache.Cache(path, eviction_policy=policy,
                            disk_min_file_size=8)
        _empty[policy] = c.volume()
        c.close()
        run.drop(path)
    return _empty[policy]


def size_of(value, mfs=8):
    if isinstance(value, bytes) and len(value) >= mfs:
        return len(value)
    if isinstance(value, str) and len(value) >= mfs:
        return len(value.encode('utf-8'))
    return 0


PREFIXES = {
    'empty': [],
    # near the limit, one item strictly expired
    'near+expired': [('set', 'x', SMALL, 0, None), ('set', 'y', LARGE, None, None),
                     ('set', 'z', SMALL, None, None), ('tick', 1)],
    # an early counter, later values: recency/frequency now differ per item
    'counter-first': [('incr', 'n', 1, 0), ('tick', 1),
                      ('set', 'y', LARGE, None, None), ('get', 'y', 0),
                      ('set', 'z', SMALL, None, None)],
    # reads spread unevenly, at the limit
    'uneven-reads': [('set', 'x', SMALL, None, None), ('tick', 1),
                     ('set', 'y', SMALL, None, None), ('tick', 1),
                     ('set', 'z', LARGE, None, None), ('get', 'x', 0),
                     ('get', 'x', 0), ('get', 'z', 0)],
}


class EvictWorld(CacheWorld):
    def __init__(self, settings, prefix='empty'):
        self.settings0 = dict(settings)
        self.prefix = prefix
        st = dict(settings)
        st.setdefault('disk_min_file_size', 8)
        pol = st.get('eviction_policy', 'least-recently-stored')
        st['size_limit'] = empty_volume(pol) + ROOM
        super().__init__(st)
        self.limit = st['size_limit']
        self.pre = Snapshot(self.dir)
        for op in PREFIXES[prefix]:
            if op[0] == 'tick':
                ENV.now += op[1]
                continue
            got, problems = self.apply(op)
            if problems:
                raise AssertionError('prefix %s: %r' % (prefix, problems))

    def replay_args(self):
        return [self.settings0, self.prefix]

    def apply(self, op):
        if op[0] != 'tick':
            self.pre = getattr(self, 'snap', None) or Snapshot(self.dir)
            self.pre_ranks = {nk: self.spec.rank(it)
                              for nk, it in self.spec.items.items()}
        return super().apply(op)

    def volume_of(self, snap, nkeys):
        total = snap.page_size * snap.page_count
        for nk in nkeys:
            total += size_of(self.spec.items[nk].value)
        return total

    def check_removal(self, op, missing, result):
        s = self.spec
        name = op[0]
        problems = []
        missing = list(missing)
        dead_all = s.expired_keys(strict=False)
        dead_strict = s.expired_keys(strict=True)
        victims = [nk for nk in missing if nk not in dead_all]
        gone_dead = [nk for nk in missing if nk in dead_all]
        post = Snapshot(self.dir)
        stable = post.page_count == self.pre.page_count
        policy = s.policy
        if name == 'cull':
            left = dead_strict - set(missing)
            if left:
                problems.append(('expire-leaves-expired',
                                 'cull() left expired %r' % sorted(left)[:3]))
            if not same(result, len(missing)):
                problems.append(('removal-count', 'cull() returned %r but '
                                 'removed %d' % (result, len(missing))))
            survivors = [nk for nk in s.items if nk not in missing]
            vol_before = self.volume_of(
                self.pre, [nk for nk in s.items
                           if not (nk in gone_dead and nk in dead_strict)])
            vol_after = self.volume_of(post, survivors)
            if policy == 'none':
                if victims:
                    problems.append(('policy-none-evicts',
                                     'cull() evicted %r' % victims))
            else:
                if victims and stable and vol_before <= self.limit:
                    problems.append(('evicted-below-limit',
                                     'cull() evicted %r although volume %d <= '
                                     'limit %d' % (victims, vol_before,
                                                   self.limit)))
                if survivors and vol_after > self.limit:
                    problems.append(('cull-stops-early',
                                     'after cull() volume %d > limit %d with '
                                     '%d items left' % (vol_after, self.limit,
                                                        len(survivors))))
            problems += self.order_problems(victims, survivors)
            return problems
        if name == 'expire' or not s.culls:
            return super().check_removal(op, missing, result)
        # a write that may cull lazily
        if len(missing) > s.cull_limit:
            problems.append(('cull-limit', '%r removed %d items, cull_limit=%d'
                             % (op, len(missing), s.cull_limit)))
        if not victims:
            return problems
        if policy == 'none':
            problems.append(('policy-none-evicts', '%r evicted %r'
                             % (op, victims)))
            return problems
        remaining_dead = dead_strict - set(missing)
        if remaining_dead:
            problems.append(('evicted-before-expired',
                             '%r evicted live %r while expired %r remain'
                             % (op, victims, sorted(remaining_dead)[:3])))
        # items strictly past their expiry were removed before the volume
        # was measured; one exactly at its expiry instant may still have
        # counted (either is admissible): take the larger volume
        at_cull = [nk for nk in s.items
                   if not (nk in gone_dead and nk in dead_strict)]
        vol = self.volume_of(post, at_cull)
        if stable and vol < self.limit:
            problems.append(('evicted-below-limit',
                             '%r evicted %r although volume %d < size_limit %d'
                             % (op, victims, vol, self.limit)))
        survivors = [nk for nk in s.items if nk not in missing]
        problems += self.order_problems(victims, survivors)
        return problems

    def order_problems(self, victims, survivors):
        s = self.spec
        dead = s.expired_keys(strict=False)
        out = []
        for v in victims:
            rv = s.rank(s.items[v])
            for u in survivors:
                if u in dead:
                    continue
                ru = s.rank(s.items[u])
                if ru is not None and rv is not None and ru < rv:
                    out.append(('policy-order',
                                '%s evicted %r (rank %r) but kept %r (rank %r)'
                                % (s.policy, v, rv, u, ru)))
                    return out
        return out

    def canon(self):
        base = super().canon()
        ranks = tuple((nk, self.spec.rank(it))
                      for nk, it in self.spec.items.items())
        return (base, repr(ranks))


def alphabet(keys):
    ops = []
    for k in keys:
        ops += [('set', k, SMALL, None, None), ('set', k, LARGE, None, None),
                ('get', k, 0)]
    ops += [('set', keys[0], SMALL, 1, None), ('set', keys[1], LARGE, 1, None),
            ('incr', 'n', 1, 0), ('touch', keys[0], 5),
            ('delete', keys[0]), ('cull',), ('tick', 1)]
    return ops


def plan(tier):
    units = []
    pols = ('least-recently-stored', 'least-recently-used',
            'least-frequently-used', 'none')
    for pol in pols:
        for cl in (0, 1, 2, 10):
            for prefix in PREFIXES:
                if tier == 'quick':
                    units.append((pol, cl, ('a', 'b', 'c'), 3, 2, prefix, 0))
                else:
                    units.append((pol, cl, ('a', 'b', 'c'), 4, 3, prefix, 0))
                if cl in (1, 10) and pol in ('least-recently-used',
                                             'least-frequently-used'):
                    # statistics on: lookups take the transactional path
                    units.append((pol, cl, ('a', 'b', 'c'),
                                  3 if tier == 'quick' else 4, 2, prefix, 1))
            if tier != 'quick':
                units.append((pol, cl, ('a', 'b', 'c', 'd', 'e'), 3, 2,
                              'empty', 0))
    return units


def work(unit):
    pol, cl, keys, depth, ticks, prefix, stats, seed, cap = unit
    st = {'eviction_policy': pol, 'cull_limit': cl}
    if stats:
        st['statistics'] = 1
    ab = run.shuffled(alphabet(keys), seed, pol)
    part = seq.bfs(lambda: EvictWorld(st, prefix), ab, depth,
                   allow=c03.allow_ticks(ticks), label=pol, time_cap=cap)
    part['label'] = 'bfs/%s' % pol
    return part


def main(tier, seed):
    rep = run.Report('C09', tier, seed, TECHNIQUE)
    cap = 200 if tier == 'quick' else 3000
    units = run.shuffled([u + (seed, cap) for u in plan(tier)], seed)
    for part in run.pmap(work, units):
        rep.merge(part, part.get('label'))
    rep.bounds = {
        'configs': 'policy in {lrs, lru, lfu, none} x cull_limit in '
                   '{0,1,2,10}; size_limit = empty volume + %d bytes' % ROOM,
        'alphabet': 'set small(40B)/large(120B) file-backed, get, incr, '
                    'touch, delete, expiring sets, cull(), tick',
        'depth': 'from each start state in %r: quick 3, thorough 4 (3 keys) '
                 'and 3 (5 keys)' % sorted(PREFIXES),
    }
    rep.assumptions = [
        'volume = page_size * page_count + sum of value file sizes; when '
        'SQLite changes the page count during a step either decision is '
        'admissible',
        'lazy eviction is allowed, not required, at the limit; cull() is '
        'required to end at or below the limit',
        'FanoutCache division of size_limit is checked under C13',
    ]
    return run.finish(rep)
