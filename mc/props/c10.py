"""C10 - push/pull/peek form exactly-once FIFO queues per prefix.

SEQ: BFS over push/pull/peek on both sides over several prefixes (incl.
prefixes that extend one another) mixed with ordinary keys and expiring
items, against per-prefix reference deques.
SCHED: producers / consumers / peekers on one directory, all interleavings,
linearizable against the same reference (implies exactly-once delivery and
per-producer order)."""
import itertools

from .. import run, sched, seq
from ..scen import CacheScenario
from ..worlds import CacheWorld
from . import c03

TECHNIQUE = ('explicit-state BFS over queue histories against per-prefix '
             'reference deques + stateless exploration of all interleavings '
             'of 2-3 producers/consumers with a linearizability oracle')

BIG = ('$B', 12)
MFS = {'disk_min_file_size': 8}


def slice_sides():
    ops = []
    for side in ('back', 'front'):
        ops += [('push', 1, None, side, None, None),
                ('push', BIG, None, side, None, 't'),
                ('push', 2, 'q', side, None, None)]
    for side in ('front', 'back'):
        ops += [('pull', None, side, 0), ('pull', 'q', side, 6),
                ('peek', None, side, 0), ('peek', 'q', side, 4),
                ('pull', None, side, 8)]
    ops += [('len',), ('keys',), ('iterkeys', False), ('get', 500000000000000, 0),
            ('delete', 500000000000000), ('set', 'zz', 1, None, None),
            ('set', 5, 'five', None, None), ('set', 10 ** 15, 'out', None, None)]
    return ops


def slice_prefixes():
    ops = []
    for p in (None, 'a', 'ab', 'a-5', 'b'):
        ops += [('push', 'v%s' % p, p, 'back', None, None),
                ('pull', p, 'front', 0), ('peek', p, 'back', 0)]
    ops += [('push', 'f', 'a', 'front', None, None),
            ('pull', 'a', 'back', 0),
            ('set', 'a', 'plain', None, None), ('set', 'a-', 'dash', None, None),
            ('set', 'b-5', 'b5', None, None), ('get', 'a', 0), ('keys',)]
    return ops


def slice_expiring():
    ops = [('push', 1, None, 'back', 1, None), ('push', 2, None, 'back', None, None),
           ('push', BIG, None, 'front', 2, None), ('push', 3, 'q', 'back', 1, None),
           ('push', 4, 'q', 'back', 0, None),
           ('pull', None, 'front', 2), ('pull', None, 'back', 0),
           ('pull', 'q', 'front', 0), ('peek', None, 'front', 2),
           ('peek', 'q', 'front', 0), ('peek', None, 'back', 0),
           ('len',), ('expire',), ('tick', 1)]
    return ops


SLICES = {'sides': slice_sides, 'prefixes': slice_prefixes,
          'expiring': slice_expiring}

STARTS = {
    'empty': (),
    # live items with an expired one at the back and at the front
    'expired-ends': (('push', 0, None, 'back', 1, None),
                     ('push', 'a', None, 'back', None, None),
                     ('push', BIG, None, 'back', None, None),
                     ('push', 'c', None, 'back', None, None),
                     ('push', 'd', None, 'back', 1, None),
                     ('push', 9, 'q', 'back', 1, None),
                     ('push', 8, 'q', 'back', None, None),
                     ('tick', 2)),
    'two-queues': (('push', 1, None, 'back', None, None),
                   ('push', 2, None, 'front', None, None),
                   ('push', 3, 'q', 'back', None, None),
                   ('set', 'plain', 4, None, None)),
}

PUSH = ('push', 'x', None, 'back', None, None)
PUSHF = ('push', 'f', None, 'front', None, None)
PUSHBIG = ('push', BIG, None, 'back', None, None)
PULL = ('pull', None, 'front', 0)
PULLB = ('pull', None, 'back', 0)
PEEK = ('peek', None, 'front', 0)


def numbered(prog, tag):
    out = []
    for i, op in enumerate(prog):
        if op[0] == 'push' and op[1] == 'x':
            op = ('push', '%s%d' % (tag, i)) + op[2:]
        out.append(op)
    return out


def sched_plan(tier):
    """(programs, init, bound)"""
    one = [('push', 'i0', None, 'back', None, None)]
    two = one + [('push', 'i1', None, 'back', None, None)]
    b3 = 1 if tier == 'quick' else 3
    units = [
        ([numbered([PUSH, PUSH], 'p'), [PULL, PULL]], [], None),
        ([numbered([PUSH, PUSH], 'p'), [PULL, PULL]], one, 2),
        ([[PULL], [PULL]], two, None),
        ([[PULL], [PULLB]], one, None),
        ([[PULL], [PEEK]], one, None),
        ([[PUSHBIG], [PULL]], one, None),
        ([[PUSHBIG], [PEEK]], [], None),
        ([numbered([PUSH], 'p'), numbered([PUSH], 'r')], [], None),
        ([numbered([PUSH], 'p'), [PUSHF]], one, None),
        ([numbered([PUSH], 'p'), [PULL], [PULL]], one, b3),
        ([numbered([PUSH], 'p'), numbered([PUSH], 'r'), [PULL]], [], b3),
        ([numbered([PUSH, PUSH], 'p'), numbered([PUSH], 'r'), [PULL, PULL]],
         [], b3),
        ([[('push', 'q0', 'q', 'back', None, None)],
          [('pull', 'q', 'front', 0)], [PULL]], one, b3),
    ]
    if tier == 'thorough':
        units += [
            ([numbered([PUSH, PUSH], 'p'), [PULL, PULL]], one, None),
            ([numbered([PUSH, PUSH], 'p'), [PULL, PEEK]], [], None),
            ([numbered([PUSH], 'p'), [PULL], [PULL]], one, 3),
            ([numbered([PUSH], 'p'), [PULL], [PULLB]], two, 3),
            ([[PUSHBIG], [PULL], [PEEK]], one, 3),
        ]
    return units


def work(unit):
    kind = unit[0]
    if kind == 'bfs':
        _, name, settings, depth, ticks, seed, cap, start = unit
        ab = run.shuffled(SLICES[name](), seed, name)
        part = seq.bfs(lambda: CacheWorld(settings, True, STARTS[start]),
                       ab, depth,
                       allow=c03.allow_ticks(ticks), label=name, time_cap=cap)
        part['label'] = 'bfs/' + name
        return part
    _, programs, init, bound, mode, cap = unit

    class QueueScenario(CacheScenario):
        relax = False

    part = sched.explore(
        lambda: QueueScenario(programs, init, mode, MFS), bound=bound,
        por=True, time_cap=cap)
    part['label'] = 'sched/%dc' % len(programs)
    return part


def main(tier, seed):
    rep = run.Report('C10', tier, seed, TECHNIQUE)
    cap = 200 if tier == 'quick' else 3000
    depth = 3 if tier == 'quick' else 4
    units = []
    for name in SLICES:
        for st in ([MFS] if tier == 'quick' else
                   [MFS, dict(MFS, cull_limit=0),
                    dict(MFS, eviction_policy='least-recently-used',
                         statistics=1)]):
            for start in STARTS:
                units.append(('bfs', name, st,
                              depth if start == 'empty' else depth - 1, 3,
                              seed, cap, start))
    for programs, init, bound in sched_plan(tier):
        for mode in (('own',) if tier == 'quick' else ('own', 'shared')):
            units.append(('sched', programs, init, bound, mode, cap))
    units = run.shuffled(units, seed)
    for part in run.pmap(work, units):
        rep.merge(part, part.get('label'))
    rep.bounds = {
        'bfs': 'depth %d per slice (sides, prefixes None/a/ab/a-5/b, '
               'expiring items) from the empty state, depth %d from two '
               'seeded states (expired items at both ends; two queues)'
               % (depth, depth - 1),
        'sched': '2 clients all interleavings; 3 clients <= 2 (quick) / 3 '
                 '(thorough) preemptions; roles producer(<=2 pushes), '
                 'consumer(<=2 pulls), peeker',
    }
    rep.assumptions = [
        'ordinary keys inside a queue\'s key range are outside the property',
        'free-running processes are replaced by the exhaustive exploration '
        'of small producer/consumer programs',
    ]
    return run.finish(rep)
