"""C19 - DjangoCache honours the Django cache-backend contract.

SEQ: BFS over BaseCache API histories (keys x versions x timeout classes,
under a virtual clock) executed on DjangoCache and on Django's own reference
backend LocMemCache; every contract-defined return value and the visible
contents (probed through get/has_key for every key and version) must
agree."""
import enum
import itertools

from .. import run, seq
from ..alpha import Snapshot
from ..env import ENV, T0
from ..spec import Raises, same
from ..worlds import World, call
from . import c03

TECHNIQUE = ('explicit-state BFS over cache-backend API histories, '
             'differential against Django\'s reference backend under one '
             'virtual clock')

_counter = itertools.count()


def make_django(directory, params):
    from diskcache import DjangoCache
    p = {'SHARDS': 2, 'OPTIONS': {}}
    p.update(params)
    return DjangoCache(directory, p)


def make_ref(params):
    from django.core.cache.backends.locmem import LocMemCache
    p = dict(params)
    p.pop('SHARDS', None)
    return LocMemCache('verif-%d' % next(_counter), p)


DEFAULT = 'DEFAULT'


def tmo(t):
    from django.core.cache.backends.base import DEFAULT_TIMEOUT
    return DEFAULT_TIMEOUT if t == DEFAULT else t


KEYS = ('a', 'b')
VERSIONS = (None, 2)

# operations whose return value the contract defines
DEFINED = {'add', 'get', 'touch', 'delete', 'incr', 'decr', 'has_key',
           'get_many', 'set_many', 'get_or_set', 'incr_version',
           'decr_version', 'pop', 'delete_many'}


def do(c, op, is_ref):
    name, a = op[0], op[1:]
    if name == 'set':
        return c.set(a[0], a[1], tmo(a[2]), version=a[3])
    if name == 'add':
        return c.add(a[0], a[1], tmo(a[2]), version=a[3])
    if name == 'get':
        return c.get(a[0], 'dflt', version=a[1])
    if name == 'touch':
        return c.touch(a[0], tmo(a[1]), version=a[2])
    if name == 'delete':
        return c.delete(a[0], version=a[1])
    if name == 'incr':
        return c.incr(a[0], a[1], version=a[2])
    if name == 'decr':
        return c.decr(a[0], a[1], version=a[2])
    if name == 'has_key':
        return c.has_key(a[0], version=a[1])
    if name == 'get_many':
        return c.get_many(list(a[0]), version=a[1])
    if name == 'set_many':
        return c.set_many(dict(a[0]), tmo(a[1]), version=a[2])
    if name == 'delete_many':
        return c.delete_many(list(a[0]), version=a[1])
    if name == 'get_or_set':
        return c.get_or_set(a[0], a[1], tmo(a[2]), version=a[3])
    if name == 'get_or_set_callable':
        return c.get_or_set(a[0], lambda: a[1], tmo(a[2]), version=a[3])
    if name == 'incr_version':
        return c.incr_version(a[0], version=a[1])
    if name == 'decr_version':
        return c.decr_version(a[0], version=a[1])
    if name == 'pop':
        if is_ref:
            v = c.get(a[0], 'dflt', version=a[1])
            c.delete(a[0], version=a[1])
            return v
        return c.pop(a[0], 'dflt', version=a[1])
    if name == 'clear':
        c.clear()
        return None
    if name == 'contains':
        return a[0] in c
    raise ValueError(op)


class DjangoWorld(World):
    def __init__(self, params):
        super().__init__()
        self.params = dict(params)
        ENV.reset(run.scratch())
        self.impl = make_django(self.dir, params)
        self.ref = make_ref(params)

    def replay_args(self):
        return [self.params]

    def config(self):
        return self.params

    def close(self):
        try:
            self.impl.close()
            self.ref.clear()
        except Exception:
            pass
        super().close()

    def probe(self, c):
        out = []
        for k in KEYS:
            for v in (1, 2, 3):
                out.append((k, v, call(c.get, k, 'MISS', version=v),
                            call(c.has_key, k, version=v)))
        return out

    def apply(self, op):
        if op[0] == 'tick':
            ENV.now += op[1]
            # what is visible changes with time: compare right away
            a, b = self.probe(self.impl), self.probe(self.ref)
            if not same(a, b):
                diff = [(x, y) for x, y in zip(a, b) if not same(x, y)]
                return None, [('contents', 'after the clock advanced the '
                               'visible state differs: %r' % (diff[:3],))]
            return None, []
        unspecified = False
        if op[0] == 'delete':
            # deleting a key that is present only as an expired entry: Django's
            # own backends disagree (locmem/file/db say True, memcached False)
            unspecified = not self.ref.has_key(op[1], version=op[2])
        got = call(do, self.impl, op, False)
        want = call(do, self.ref, op, True)
        problems = []
        if unspecified and got in (True, False) and want in (True, False):
            got = want
        if isinstance(got, Raises) or isinstance(want, Raises) \
                or op[0] in DEFINED:
            if op[0] == 'set_many' and not isinstance(got, Raises):
                got, want = list(got), list(want)
            if op[0] == 'delete_many':
                got = want = None if not isinstance(got, Raises) else got
            if not same(got, want):
                problems.append(('result', '%r returned %r, reference backend '
                                 'returned %r' % (op, got, want)))
        a, b = self.probe(self.impl), self.probe(self.ref)
        if not same(a, b):
            diff = [(x, y) for x, y in zip(a, b) if not same(x, y)]
            problems.append(('contents', 'after %r visible state differs: %r'
                             % (op, diff[:3])))
        return got, problems

    def canon(self):
        shards = tuple(
            Snapshot('%s/%03d' % (self.dir, i)).canon(with_settings=False)
            for i in range(self.params.get('SHARDS', 2)))
        return (shards, ENV.now - T0)

    def signature(self, hist, problems):
        return {'world': 'DjangoWorld'}


def alphabet():
    ops = []
    for k in KEYS:
        ops += [('set', k, 1, DEFAULT, None), ('get', k, None),
                ('delete', k, None)]
    ops += [
        ('set', 'a', 5, None, None), ('set', 'a', 6, 0, None),
        ('set', 'a', 7, -1, None), ('set', 'a', 8, 1, None),
        ('set', 'a', 9, 2, 2), ('set', 'a', 'txt', DEFAULT, 2),
        ('add', 'a', 2, DEFAULT, None), ('add', 'a', 3, 1, None),
        ('add', 'a', 4, 0, None), ('add', 'b', 4, None, 2),
        ('get', 'a', 2),
        ('touch', 'a', DEFAULT, None), ('touch', 'a', None, None),
        ('touch', 'a', 0, None), ('touch', 'a', 1, None),
        ('touch', 'a', -1, 2),
        ('incr', 'a', 1, None), ('incr', 'a', 2, 2), ('decr', 'a', 1, None),
        ('incr', 'b', 1, None),
        ('has_key', 'a', None), ('has_key', 'a', 2), ('contains', 'a'),
        ('get_many', ('a', 'b'), None), ('get_many', ('a',), 2),
        ('set_many', (('a', 10), ('b', 11)), DEFAULT, None),
        ('set_many', (('a', 12),), 0, None),
        ('set_many', (('b', 13),), 1, 2),
        ('delete_many', ('a', 'b'), None),
        ('get_or_set', 'a', 20, DEFAULT, None), ('get_or_set', 'b', 21, 1, None),
        ('get_or_set', 'a', 22, 0, None),
        ('get_or_set_callable', 'a', 23, None, 2),
        ('incr_version', 'a', None), ('incr_version', 'a', 2),
        ('decr_version', 'a', 2), ('decr_version', 'b', None),
        ('pop', 'a', None), ('pop', 'a', 2), ('delete', 'a', 2),
        ('clear',), ('tick', 1),
    ]
    return ops


def plan(tier):
    base = [{'TIMEOUT': 300, 'KEY_PREFIX': '', 'VERSION': 1, 'SHARDS': 2},
            {'TIMEOUT': None, 'KEY_PREFIX': 'p', 'VERSION': 1, 'SHARDS': 1},
            {'TIMEOUT': 1, 'KEY_PREFIX': '', 'VERSION': 2, 'SHARDS': 2},
            {'TIMEOUT': 0, 'KEY_PREFIX': 'p', 'VERSION': 1, 'SHARDS': 2}]
    if tier == 'thorough':
        base = [{'TIMEOUT': t, 'KEY_PREFIX': p, 'VERSION': v, 'SHARDS': s}
                for t in (300, None, 1, 0) for p in ('', 'p')
                for v in (1, 2) for s in (1, 2)]
    return base


class Level(enum.IntEnum):
    LOW = 1
    HIGH = 2


def value_set():
    import decimal
    from django.utils.safestring import SafeString
    return [True, False, 0, 1, 1.0, -0.0, 'txt', '', b'bytes', None,
            SafeString('<b>safe</b>'), Level.HIGH, decimal.Decimal('1.10'),
            'x' * 40000, b'y' * 40000, [1, 'two'], {'k': (1, 2)}, (1, True),
            2 ** 70, float('inf')]


def typed_same(a, b):
    """same() plus exact types inside containers."""
    if type(a) is not type(b):
        return False
    if isinstance(a, (list, tuple)):
        return len(a) == len(b) and all(typed_same(x, y)
                                        for x, y in zip(a, b))
    if isinstance(a, dict):
        return list(a) == list(b) and all(typed_same(a[k], b[k]) for k in a)
    return same(a, b)


def values_unit(unit):
    """Every kind of value comes back from every reading method exactly as
    Django's reference backend returns it (type included)."""
    _, params = unit
    part = {'states': 0, 'transitions': 0, 'executions': 0, 'violations': [],
            'outcomes': {}, 'samples': [], 'caps': [],
            'label': 'grid/values'}
    root = run.fresh_dir('dv')
    ENV.reset(run.scratch())
    dj, ref = make_django(root, params), make_ref(params)
    readers = [
        ('get', lambda c, k: c.get(k)),
        ('get_many', lambda c, k: c.get_many([k])),
        ('get_or_set', lambda c, k: c.get_or_set(k, 'other')),
        ('has_key', lambda c, k: c.has_key(k)),
        ('pop', lambda c, k: c.pop(k) if hasattr(c, 'pop') else
         (c.get(k), c.delete(k))[0]),
    ]
    writers = [
        ('set', lambda c, k, v: c.set(k, v)),
        ('add', lambda c, k, v: c.add(k, v)),
        ('set_many', lambda c, k, v: c.set_many({k: v})),
        ('get_or_set', lambda c, k, v: c.get_or_set(k, v)),
    ]
    try:
        n = 0
        for v in value_set():
            part['states'] += 1
            for wname, w in writers:
                for rname, r in readers:
                    n += 1
                    k = 'k%d' % n
                    got_w, want_w = call(w, dj, k, v), call(w, ref, k, v)
                    got, want = call(r, dj, k), call(r, ref, k)
                    part['transitions'] += 1
                    part['executions'] += 1
                    okey = type(v).__name__
                    part['outcomes'][okey] = part['outcomes'].get(okey, 0) + 1
                    bad = not typed_same(got, want) or (
                        wname in ('add', 'get_or_set')
                        and not typed_same(got_w, want_w))
                    if bad:
                        part['violations'].append({
                            'signature': {'clause': 'value-altered',
                                          'type': type(v).__name__},
                            'message': 'value-altered: params %r: %s(%r) -> '
                                       '%r (reference %r), then %s -> %r '
                                       '(%s), reference backend %r (%s)'
                                       % (params, wname,
                                          v if len(repr(v)) < 60 else
                                          repr(v)[:40] + '...', got_w,
                                          want_w, rname,
                                          got if len(repr(got)) < 60 else
                                          repr(got)[:40] + '...',
                                          type(got).__name__,
                                          want if len(repr(want)) < 60 else
                                          repr(want)[:40] + '...',
                                          type(want).__name__),
                            'replay': {'engine': 'GRID',
                                       'module': 'props.c19',
                                       'params': params, 'writer': wname,
                                       'reader': rname, 'value': repr(v)[:80]}})
    finally:
        dj.close()
        run.drop(root)
    return part


def extensions_unit(unit):
    """The diskcache-specific methods of the backend (read, expire, evict,
    cull, stats, tag index, cache/deque/index, directory) give what the
    same history gives on a FanoutCache driven directly with the keys the
    backend derives."""
    import diskcache as dc
    _, params = unit
    part = {'states': 0, 'transitions': 0, 'executions': 0, 'violations': [],
            'outcomes': {}, 'samples': [], 'caps': [],
            'label': 'grid/extensions'}
    root, root2 = run.fresh_dir('de'), run.fresh_dir('df')
    ENV.reset(run.scratch())
    dj = make_django(root, params)
    fc = dc.FanoutCache(root2, shards=params.get('SHARDS', 2))
    mk = dj.make_key
    steps = []

    def both(label, f_dj, f_fc):
        a, b = call(f_dj), call(f_fc)
        from ..worlds import normalize
        a, b = normalize(a), normalize(b)
        part['transitions'] += 1
        part['executions'] += 1
        steps.append((label, a, b))
        if not same(a, b):
            part['violations'].append({
                'signature': {'clause': 'extension-differs', 'op': label},
                'message': 'extension-differs: params %r: after %r, '
                           'DjangoCache.%s -> %r but the FanoutCache driven '
                           'with the same keys -> %r'
                           % (params, [x[0] for x in steps[:-1]], label, a, b),
                'replay': {'engine': 'GRID', 'module': 'props.c19',
                           'params': params, 'generic': True}})

    try:
        big = b'v' * 40000
        for i in range(6):
            both('set%d' % i,
                 lambda: dj.set('k%d' % i, big if i % 2 else i, timeout=5
                                if i < 3 else None, tag='t%d' % (i % 2)),
                 lambda: fc.set(mk('k%d' % i), big if i % 2 else i,
                                expire=5 if i < 3 else None,
                                tag='t%d' % (i % 2)))
        both('stats-enable', lambda: dj.stats(enable=True),
             lambda: fc.stats(enable=True))
        both('read', lambda: dj.read('k1'), lambda: fc.read(mk('k1')))
        both('read-missing', lambda: dj.read('zz'),
             lambda: fc.read(mk('zz')))
        both('read-version', lambda: dj.read('k1', version=7),
             lambda: fc.read(mk('k1', version=7)))
        both('get-hit', lambda: dj.get('k0'), lambda: fc.get(mk('k0')))
        both('get-miss', lambda: dj.get('nope'), lambda: fc.get(mk('nope')))
        both('stats', lambda: dj.stats(), lambda: fc.stats())
        both('create_tag_index', lambda: dj.create_tag_index(),
             lambda: fc.create_tag_index())
        both('tag_index', lambda: dj._cache.tag_index, lambda: fc.tag_index)
        both('evict', lambda: dj.evict('t1'), lambda: fc.evict('t1'))
        both('drop_tag_index', lambda: dj.drop_tag_index(),
             lambda: fc.drop_tag_index())
        ENV.now += 10
        both('expire', lambda: dj.expire(), lambda: fc.expire())
        both('len', lambda: len(dj._cache), lambda: len(fc))
        both('cull', lambda: dj.cull(), lambda: fc.cull())
        both('stats-reset', lambda: dj.stats(reset=True),
             lambda: fc.stats(reset=True))
        both('stats-after', lambda: dj.stats(enable=False),
             lambda: fc.stats(enable=False))
        both('keys', lambda: sorted(map(repr, dj._cache)),
             lambda: sorted(map(repr, fc)))
        # named sub-objects live below the backend's directory
        part['transitions'] += 1
        sub = dj.cache('sub')
        sub['x'] = 1
        ok = (dj.directory == root and type(sub) is dc.Cache
              and sub.directory.startswith(root) and dj.cache('sub') is sub
              and dj.cache('sub')['x'] == 1
              and type(dj.deque('dq')) is dc.Deque
              and type(dj.index('ix')) is dc.Index)
        if not ok:
            part['violations'].append({
                'signature': {'clause': 'extension-differs', 'op': 'cache'},
                'message': 'extension-differs: DjangoCache.cache/deque/index/'
                           'directory: directory=%r sub=%r'
                           % (dj.directory, sub),
                'replay': {'engine': 'GRID', 'module': 'props.c19',
                           'params': params, 'generic': True}})
    finally:
        dj.close()
        fc.close()
        run.drop(root)
        run.drop(root2)
    part['states'] = len(steps)
    part['outcomes']['extensions'] = 1
    return part


def work(unit):
    if unit[0] == 'values':
        return values_unit(unit)
    if unit[0] == 'extensions':
        return extensions_unit(unit)
    params, depth, seed, cap, chunk, nchunks = unit
    ab = run.shuffled(alphabet(), seed, 'dj')
    part = seq.bfs(lambda: DjangoWorld(params), ab, depth,
                   allow=c03.allow_ticks(2), label='django', time_cap=cap,
                   first=ab[chunk::nchunks])
    part['label'] = 'bfs/django'
    return part


def main(tier, seed):
    rep = run.Report('C19', tier, seed, TECHNIQUE)
    depth = 3
    cap = 200 if tier == 'quick' else 3000
    units = []
    for i, p in enumerate(plan(tier)):
        d = depth if tier == 'quick' or i % 4 else 4
        units += [(p, d, seed, cap, ch, 4) for ch in range(4)]
        units.append(('values', p))
        units.append(('extensions', p))
    units = run.shuffled(units, seed)
    for part in run.pmap(work, units):
        rep.merge(part, part.get('label'))
    rep.bounds = {
        'alphabet': '%d operations over keys a,b x versions default,2 x '
                    'timeouts DEFAULT/None/0/-1/1/2' % len(alphabet()),
        'depth': 'quick 3; thorough 3 for all and 4 for every fourth '
                 'parameter set; clock <= 2 ticks',
        'params': plan(tier) if tier == 'quick' else '32 combinations of '
                  'TIMEOUT/KEY_PREFIX/VERSION/SHARDS',
    }
    rep.assumptions = [
        'the oracle is Django\'s LocMemCache run on the same history under '
        'the same virtual clock; return values are compared only where the '
        'contract defines them (set/clear return values are not)',
    ]
    return run.finish(rep)
