"""C13 - a sharded cache is observably one cache with a fixed key-to-shard
mapping.

(a) SEQ: the C03 slices on FanoutCache for shard counts {1,2,3,8,13}
    (aggregates compared as multisets), per-shard size_limit division.
(b) GRID routing: every key of the key alphabet is hashed in three fresh
    interpreters (PYTHONHASHSEED 0, 1, random) and must agree with the
    routing recorded from the pinned commit (golden/routing.json); data
    written by another interpreter must be found; keys the cache treats as
    equal must share a shard for every shard count 1..16."""
import json
import os
import shutil
import subprocess
import sys

from .. import run, seq
from ..alpha import Snapshot
from ..env import ENV, T0, REPO
from ..spec import SpecCache, norm_key, same
from ..worlds import (CacheWorld, World, call, impl_op, model_op, template,
                      val, _short)
from . import c03

TECHNIQUE = ('explicit-state BFS of FanoutCache against the single-cache '
             'reference model + bounded-exhaustive routing enumeration across '
             'fresh interpreters and recorded routing')

GOLDEN = os.path.join(run.VERIF, 'golden', 'routing.json')
UNSUPPORTED = {'peekitem', 'iterkeys', 'push', 'pull', 'peek'}


class FanoutWorld(CacheWorld):
    def __init__(self, settings=None, shards=2):
        import diskcache
        World.__init__(self)
        self.settings = dict(settings or {})
        self.shards = shards
        key = dict(self.settings, _shards=shards)
        tmpl = template('fanout', key, lambda p: diskcache.FanoutCache(
            p, shards=shards, **self.settings).close())
        shutil.copytree(tmpl, self.dir)
        ENV.reset(run.scratch())
        self.cache = diskcache.FanoutCache(self.dir, shards=shards,
                                           **self.settings)
        s = self.settings
        self.spec = SpecCache(
            policy=s.get('eviction_policy', 'least-recently-stored'),
            statistics=s.get('statistics', False),
            cull_limit=s.get('cull_limit', 10),
            min_file_size=s.get('disk_min_file_size', 2 ** 15),
            clock=lambda: ENV.now)

    def replay_args(self):
        return [self.settings, self.shards]

    def route(self, key):
        import diskcache
        d = diskcache.Disk(self.dir)
        d.pickle_protocol = self.settings.get('disk_pickle_protocol', 5)
        return d.hash(key) % self.shards

    def snaps(self):
        return [Snapshot('%s/%03d' % (self.dir, i))
                for i in range(self.shards)]

    def apply(self, op):
        if op[0] == 'tick':
            ENV.now += op[1]
            return None, []
        s = self.spec
        s.culls = False
        got = self.impl(op)
        want = self.model(op)
        problems = []
        name = op[0]
        relational = name in ('expire', 'cull')
        if name in ('keys', 'rkeys') and isinstance(got, list) \
                and isinstance(want, list):
            ok = sorted(map(repr, got)) == sorted(map(repr, want))
            if not ok:
                problems.append(('result', '%r returned %r, reference %r '
                                 '(as multisets)' % (op, got, want)))
            if name == 'rkeys':
                fwd = self.impl(('keys',))
                if got != fwd[::-1]:
                    problems.append(('result', 'reversed() %r is not the '
                                     'reverse of iteration %r' % (got, fwd)))
        elif not relational and not same(got, want):
            problems.append(('result', '%r returned %r, reference says %r'
                             % (op, got, want)))
        snaps = self.snaps()
        rows, have = [], set()
        hits = misses = 0
        for i, snap in enumerate(snaps):
            for row in snap.contents():
                rows.append(row)
                have.add(norm_key(row[0]))
                # routing computed by an independent Disk object (not by the
                # FanoutCache under test, which may remember earlier keys)
                idx = self.route(row[0])
                if idx != i:
                    problems.append(('misrouted', 'key %r stored in shard %d '
                                     'but routed to %d' % (row[0], i, idx)))
            hits += snap.settings.get('hits', 0)
            misses += snap.settings.get('misses', 0)
            bad = snap.audit()
            if bad:
                problems.append(('bookkeeping', 'shard %d: %s'
                                 % (i, '; '.join(bad[:3]))))
        missing = [nk for nk in s.items if nk not in have]
        problems += self.check_removal(op, missing, got)
        s.forget(missing)
        want_rows = s.rows()
        if sorted(map(repr, rows)) != sorted(map(repr, want_rows)):
            problems.append(('contents', 'after %r contents are %r, reference '
                             'says %r' % (op, _short(rows), _short(want_rows))))
        if (hits, misses) != (s.hits, s.misses):
            problems.append(('statistics', 'after %r hits/misses %r, reference '
                             '%r' % (op, (hits, misses), (s.hits, s.misses))))
        self._snaps = snaps
        return got, problems

    def check_removal(self, op, missing, result):
        # cull_limit applies per shard write: same bound for one write
        return CacheWorld.check_removal(self, op, missing, result)

    def canon(self):
        snaps = getattr(self, '_snaps', None) or self.snaps()
        return (tuple(sn.canon() for sn in snaps), ENV.now - T0)

    def signature(self, hist, problems):
        return {'world': 'FanoutWorld', 'shards': self.shards}


def fanout_alphabet(name):
    # 1.0 aliases 1 for Cache but routes elsewhere (known finding, reported
    # once by the routing enumeration): keep one spelling per number here
    return [op for op in c03.SLICES[name]()
            if op[0] not in UNSUPPORTED and 1.0 not in [
                x for x in op[1:2] if isinstance(x, float)]]


def routing_script():
    return r'''
import json, sys
sys.path.insert(0, %r)
sys.path.insert(0, %r)
from mc.props import c02
import diskcache, tempfile, shutil
out = {}
d = diskcache.Disk(tempfile.gettempdir())
for proto in (0, 2, 5):
    d.pickle_protocol = proto
    for k in c02.alphabet(proto):
        name = "%%d|%%s|%%r" %% (proto, type(k).__name__, k)
        if name in out:
            out[name] = None      # two distinct keys print alike: ambiguous
        else:
            out[name] = d.hash(k)
directory = sys.argv[1] if len(sys.argv) > 1 else None
if directory:
    fc = diskcache.FanoutCache(directory, shards=int(sys.argv[2]))
    for i, k in enumerate(c02.alphabet(5)):
        fc.set(k, i)
    fc.close()
json.dump(out, sys.stdout)
''' % (REPO, run.VERIF)


def hashes(seed, directory=None, shards=8):
    env = dict(os.environ)
    env['PYTHONHASHSEED'] = seed
    env['PYTHONDONTWRITEBYTECODE'] = '1'
    cmd = [sys.executable, '-c', routing_script()]
    if directory:
        cmd += [directory, str(shards)]
    out = subprocess.run(cmd, env=env, capture_output=True, text=True,
                         timeout=300)
    if out.returncode != 0:
        raise RuntimeError('routing subprocess failed: %s' % out.stderr[-800:])
    return json.loads(out.stdout)


def routing_unit(unit):
    import diskcache
    from . import c02
    part = {'states': 0, 'transitions': 0, 'executions': 0, 'violations': [],
            'outcomes': {}, 'samples': [], 'caps': [], 'label': 'grid/routing'}

    def bad(clause, msg, extra=None):
        sig = {'clause': clause}
        sig.update(extra or {})
        part['violations'].append({
            'signature': sig, 'message': '%s: %s' % (clause, msg),
            'replay': {'engine': 'GRID', 'module': 'props.c13',
                       'clause': clause}})

    root = run.fresh_dir('r')
    os.makedirs(root)
    shards = 8
    wdir = os.path.join(root, 'written-by-seed1')
    runs = {'0': hashes('0'), '1': hashes('1', wdir, shards),
            'random': hashes('random')}
    golden = json.load(open(GOLDEN))
    part['states'] = len(golden)
    for name, table in runs.items():
        part['transitions'] += len(table)
        part['executions'] += 1
        if set(table) != set(golden):
            bad('routing-keys', 'interpreter seed=%s hashed a different key '
                'set than recorded (%d vs %d)' % (name, len(table),
                                                  len(golden)))
            continue
        diff = [(k, table[k], golden[k]) for k in golden
                if table[k] != golden[k]]
        if diff:
            bad('routing-changed', 'seed=%s: %d keys hash differently from the '
                'recorded routing, e.g. %r' % (name, len(diff), diff[:3]))
    # data written by another interpreter is found, in the recorded shard
    ENV.reset(run.scratch())
    fc = diskcache.FanoutCache(wdir, shards=shards)
    try:
        alpha = c02.alphabet(5)
        names = [norm_key(k) for k in alpha]
        for i, k in enumerate(alpha):
            if names.count(names[i]) > 1:
                continue          # aliases overwrite one another
            part['transitions'] += 1
            got = fc.get(k, 'MISSING')
            if got != i:
                bad('written-elsewhere-not-found', 'key %r written by another '
                    'interpreter: get -> %r, want %r' % (k, got, i))
        for i in range(shards):
            snap = Snapshot('%s/%03d' % (wdir, i))
            for key, value, _, _ in snap.contents():
                g = golden.get('5|%s|%r' % (type(key).__name__, key))
                if g is not None and g % shards != i:
                    bad('stored-shard-differs', 'key %r lives in shard %d, '
                        'recorded routing says %d' % (key, i, g % shards))
    finally:
        fc.close()
    # routing through a long-lived FanoutCache object must not depend on
    # which keys the object has seen before (forward and reverse order)
    for order in (1, -1):
        fpath = os.path.join(root, 'hist%d' % order)
        fobj = diskcache.FanoutCache(fpath, shards=8)
        try:
            for k in c02.alphabet(5)[::order]:
                part['transitions'] += 1
                name = '5|%s|%r' % (type(k).__name__, k)
                want = golden.get(name)
                if want is None:
                    continue
                got = fobj._hash(k)
                if got != want:
                    bad('routing-depends-on-history', 'after hashing other '
                        'keys, FanoutCache routes %r by %r, recorded %r'
                        % (k, got, want))
        finally:
            fobj.close()
    # keys the cache treats as equal share a shard, for every shard count
    d = diskcache.Disk(root)
    d.pickle_protocol = 5
    keys = c02.alphabet(5)
    for i, k1 in enumerate(keys):
        for k2 in keys[i + 1:]:
            if norm_key(k1) == norm_key(k2) and norm_key(k1)[0] == 'n':
                part['transitions'] += 1
                split = [n for n in range(1, 17)
                         if d.hash(k1) % n != d.hash(k2) % n]
                okey = 'equal-pair-%s' % ('split' if split else 'together')
                part['outcomes'][okey] = part['outcomes'].get(okey, 0) + 1
                if split:
                    bad('equal-keys-different-shard',
                        'keys %r and %r are one key for Cache but route to '
                        'different shards for shard counts %r'
                        % (k1, k2, split[:6]),
                        {'types': '%s/%s' % (type(k1).__name__,
                                             type(k2).__name__)})
    # ... also with a Disk subclass that encodes keys itself (JSONDisk: a
    # tuple and the equal list are one key): the sharded cache must answer
    # like the unsharded one
    pairs = [((i, 'x'), [i, 'x']) for i in range(8)] + \
        [(('a', (1, i)), ['a', [1, i]]) for i in range(4)]
    for n in (1, 2, 3, 8, 13):
        fobj = diskcache.FanoutCache(os.path.join(root, 'json%d' % n),
                                     shards=n, disk=diskcache.JSONDisk)
        ref = diskcache.Cache(os.path.join(root, 'jsonref%d' % n),
                              disk=diskcache.JSONDisk)
        try:
            for k1, k2 in pairs:
                part['transitions'] += 1
                got, want = [], []
                for obj, out in ((fobj, got), (ref, want)):
                    out.append(call(obj.set, k1, 'A'))
                    out.append(call(obj.get, k2, 'MISSING'))
                    out.append(call(obj.add, k2, 'B'))
                    out.append(call(obj.__contains__, k2))
                    out.append(call(obj.touch, k2, 100))
                    out.append(call(obj.pop, k2, 'MISSING'))
                    out.append(call(obj.get, k1, 'MISSING'))
                if not same(got, want):
                    bad('equal-keys-different-shard',
                        'JSONDisk, %d shards: set(%r) then get/add/contains/'
                        'touch/pop(%r), get(first) -> %r; the unsharded cache '
                        'gives %r' % (n, k1, k2, got, want),
                        {'types': 'jsondisk'})
                    break
        finally:
            fobj.close()
            ref.close()
    part['samples'].append({'keys_hashed': len(golden),
                            'interpreters': sorted(runs)})
    run.drop(root)
    return part


def limits_unit(unit):
    """size_limit is divided among the shards (creation-time settings)."""
    import diskcache
    part = {'states': 0, 'transitions': 0, 'executions': 0, 'violations': [],
            'outcomes': {}, 'samples': [], 'caps': [], 'label': 'grid/limits'}
    ENV.reset(run.scratch())
    for shards in (1, 2, 3, 8, 13):
        for total in (2 ** 30, 10 ** 6, 1300):
            path = run.fresh_dir('l')
            fc = diskcache.FanoutCache(path, shards=shards, size_limit=total)
            got = [Snapshot('%s/%03d' % (path, i)).settings['size_limit']
                   for i in range(shards)]
            fc.close()
            if total == 2 ** 30:
                # default total survives a pickle round trip undivided again
                import pickle
                fc2 = pickle.loads(pickle.dumps(fc))
                fc2.close()
                got += [Snapshot('%s/%03d' % (path, i)).settings['size_limit']
                        for i in range(shards)]
                got = got[shards:] if got[:shards] == got[shards:] else got
            run.drop(path)
            part['transitions'] += 1
            part['executions'] += 1
            part['states'] += 1
            if any(abs(g - total / shards) > 1e-6 for g in got) \
                    or len(got) != shards:
                part['violations'].append({
                    'signature': {'clause': 'size-limit-division'},
                    'message': 'size-limit-division: %d shards, total %d: '
                               'per-shard limits %r' % (shards, total, got),
                    'replay': {'engine': 'GRID', 'module': 'props.c13',
                               'clause': 'size-limit-division'}})
    # aggregate methods outside the data alphabet: tag index, volume, context
    # manager, named sub-caches - every shard exactly once
    import sqlite3
    for shards in (1, 2, 3, 8, 13):
        path = run.fresh_dir('l')
        fc = diskcache.FanoutCache(path, shards=shards, disk_min_file_size=8)
        probs = []
        try:
            for i in range(3 * shards):
                fc.set(i, 'v' * 20, tag='t')
            dirs = ['%s/%03d' % (path, i) for i in range(shards)]

            def tag_indexes():
                out = []
                for d in dirs:
                    con = sqlite3.connect(os.path.join(d, 'cache.db'))
                    try:
                        n = con.execute(
                            "SELECT COUNT(*) FROM sqlite_master WHERE "
                            "type = 'index' AND name = 'Cache_tag_rowid'"
                        ).fetchone()[0]
                    finally:
                        con.close()
                    out.append((n, Snapshot(d).settings['tag_index']))
                return out
            fc.create_tag_index()
            if tag_indexes() != [(1, 1)] * shards or fc.tag_index != 1:
                probs.append('create_tag_index: per shard (index, setting) '
                             '= %r' % (tag_indexes(),))
            fc.drop_tag_index()
            if tag_indexes() != [(0, 0)] * shards or fc.tag_index != 0:
                probs.append('drop_tag_index: per shard (index, setting) = '
                             '%r' % (tag_indexes(),))
            each = []
            for d in dirs:
                c = diskcache.Cache(d)
                each.append(c.volume())
                c.close()
            if fc.volume() != sum(each):
                probs.append('volume() = %r, shards hold %r'
                             % (fc.volume(), each))
            with fc as entered:
                inside = entered is fc and fc.get(0) == 'v' * 20
            if not inside or fc.get(1) != 'v' * 20:
                probs.append('with-block: entered object / use after the '
                             'block wrong')
            sub = fc.cache('sub')
            sub['x'] = 1
            if not (type(sub) is diskcache.Cache and fc.cache('sub') is sub
                    and sub.directory == os.path.join(path, 'cache', 'sub')
                    and len(fc) == 3 * shards):
                probs.append('cache(name): %r in %r, len(fc)=%d'
                             % (sub, sub.directory, len(fc)))
        finally:
            fc.close()
            run.drop(path)
        part['transitions'] += 5
        part['executions'] += 1
        part['states'] += 1
        for msg in probs:
            part['violations'].append({
                'signature': {'clause': 'aggregate-not-every-shard'},
                'message': 'aggregate-not-every-shard: %d shards: %s'
                           % (shards, msg),
                'replay': {'engine': 'GRID', 'module': 'props.c13',
                           'clause': 'aggregate-not-every-shard'}})
    # a setting changed through one handle and re-read through another one
    # (reset(key) without a value) takes effect in every shard of the second
    # handle, exactly as it does for two handles of an unsharded cache
    for shards in (1, 2, 3, 8, 13):
        results = []
        for sharded in (True, False):
            path = run.fresh_dir('l')
            mk = (lambda: diskcache.FanoutCache(path, shards=shards)) \
                if sharded else (lambda: diskcache.Cache(path))
            a, b = mk(), mk()
            out = []
            try:
                out.append(call(b.stats))                 # off: (0, 0)
                call(a.stats, enable=True)
                call(a.reset, 'cull_limit', 0)
                out.append(call(b.reset, 'statistics'))
                out.append(call(b.reset, 'cull_limit'))
                for i in range(40):
                    b.set(i, i, expire=1)
                ENV.now += 5
                for i in range(40, 60):
                    b.set(i, i)      # cull_limit 0: nothing is culled
                out.append(sum(1 for i in range(40, 60)
                               if b.get(i) == i))
                out.append(len(b))
                out.append(call(b.stats))
            finally:
                a.close()
                b.close()
                run.drop(path)
            results.append(out)
        part['transitions'] += 1
        part['executions'] += 2
        part['states'] += 1
        if not same(results[0], results[1]):
            part['violations'].append({
                'signature': {'clause': 'setting-reload-not-all-shards'},
                'message': 'setting-reload-not-all-shards: %d shards: after '
                           'handle A enabled statistics and set cull_limit=0, '
                           'handle B reloaded both with reset(key) and stored '
                           '40 expiring + 20 lasting items: [stats before, '
                           'reloaded statistics, reloaded cull_limit, hits, '
                           'len, stats] = %r; two handles of an unsharded '
                           'cache give %r' % (shards, results[0], results[1]),
                'replay': {'engine': 'GRID', 'module': 'props.c13',
                           'clause': 'setting-reload-not-all-shards'}})
    return part


def work(unit):
    if unit[0] == 'routing':
        return routing_unit(unit)
    if unit[0] == 'limits':
        return limits_unit(unit)
    _, name, settings, shards, depth, seed, cap, chunk, nch = unit
    ab = run.shuffled(fanout_alphabet(name), seed, name)
    part = seq.bfs(lambda: FanoutWorld(settings, shards), ab, depth,
                   allow=c03.allow_ticks(3), label=name, time_cap=cap,
                   first=ab[chunk::nch])
    part['label'] = 'bfs/%d-shards' % shards
    return part


def main(tier, seed):
    rep = run.Report('C13', tier, seed, TECHNIQUE)
    cap = 200 if tier == 'quick' else 3000
    units = [('routing',), ('limits',)]
    depth = 3 if tier == 'quick' else 4
    slices = ['expiry', 'tags', 'stats', 'counters', 'order']
    grid = []
    for i, shards in enumerate((1, 2, 3, 8, 13)):
        for j, name in enumerate(slices):
            if tier == 'quick' and (i + j) % 2:
                continue
            st = c03.settings_for(c03.POLICIES[(i + j) % 4], (i + j) % 2,
                                  j % 2, 8)
            grid.append((name, st, shards))
    for name, st, shards in grid:
        for ch in range(2):
            units.append(('bfs', name, st, shards, depth, seed, cap, ch, 2))
    units = run.shuffled(units, seed)
    for part in run.pmap(work, units):
        rep.merge(part, part.get('label'))
    rep.bounds = {
        'bfs': 'C03 slices (without peekitem/iterkeys/queue ops) at depth %d '
               'for shard counts 1,2,3,8,13' % depth,
        'routing': 'every key of the C02 alphabet x protocols 0,2,5 x '
                   'interpreters with PYTHONHASHSEED 0, 1, random, against '
                   'golden/routing.json; every equal-key pair x shard counts '
                   '1..16',
    }
    rep.assumptions = [
        'golden/routing.json was recorded from the pinned commit (hash '
        'function untouched by the fix commits)',
        'aggregate iteration is compared as a multiset',
    ]
    return run.finish(rep)


def record_golden():
    os.makedirs(os.path.dirname(GOLDEN), exist_ok=True)
    table = hashes('0')
    with open(GOLDEN, 'w') as f:
        json.dump(table, f, indent=0, sort_keys=True)
    print('recorded %d hashes' % len(table))
