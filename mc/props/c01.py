"""C01 - stored values come back identical, whatever their type, size or
storage path.  GRID: bounded-exhaustive product value x threshold x
serializer x accessor (+ all ordered pairs of representation classes as
overwrite histories)."""
import enum
import re
import io
import math
import pickle

from .. import run
from ..alpha import Snapshot
from ..env import ENV
from ..spec import same
from ..worlds import Chunks, call, normalize
from ..spec import Raises

TECHNIQUE = ('bounded-exhaustive enumeration of the product value alphabet x '
             'storage threshold x serializer x accessor on the real library, '
             'type-and-value equality oracle')


class Tagged(str):
    """str subclass carrying state (must survive as its own type)."""

    def __new__(cls, s, mark=None):
        self = super().__new__(cls, s)
        self.mark = mark
        return self

    def __reduce__(self):
        return (Tagged, (str(self), self.mark))


class Raw(bytes):
    pass


class Colour(str, enum.Enum):
    RED = 'red'
    LONG = 'l' * 40


def rich_same(a, b):
    if not same(a, b):
        return False
    if isinstance(a, Tagged):
        return a.mark == b.mark
    return True


CHAR_CLASSES = {
    'ascii': 'a', 'cr': '\r', 'lf': '\n', 'crlf': '\r\n', 'nul': '\x00',
    'nel': '\x85', 'ls': ' ', 'latin': '\xe9', 'cjk': '中',
    'astral': '\U0001F600', 'surrogate': '\ud800', 'bom': '\ufeff',
    'nonchar': '\ufffe', 'replacement': '\ufffd',
    'mixed': 'x\r\ny\rz\n\x00\x85 ',
}
BYTE_CLASSES = {'a': b'a', 'nul': b'\x00', 'crlf': b'\r\n', 'ff': b'\xff',
                'mix': b'\x00\r\n\xff\x80abc'}


def lengths(m):
    out = {0, 1, 2, max(m - 1, 0), m, m + 1}
    return sorted(out)


def fill(unit, n):
    if not unit:
        return unit
    reps = n // len(unit) + 1
    return (unit * reps)[:n]


def values(m, json_only=False):
    """[(label, value, kind)] kind in value|stream."""
    out = []
    ints = [0, 1, -1, 255, 2 ** 31, 2 ** 63 - 1, -2 ** 63, 2 ** 63,
            -2 ** 63 - 1, 2 ** 64, 10 ** 100, -10 ** 30]
    floats = [0.0, -0.0, 1.5, float('inf'), float('-inf'), float('nan'),
              5e-324, 1e308, 2.0 ** 53, -1e-7]
    for i in ints:
        out.append(('int %s' % (i if abs(i) < 10 ** 20 else 'huge'), i))
    for f in floats:
        out.append(('float %r' % f, f))
    out += [('None', None), ('True', True), ('False', False)]
    for name, unit in CHAR_CLASSES.items():
        for n in lengths(m):
            out.append(('str %s x%d' % (name, n), fill(unit, n)))
    for n in lengths(m):
        if n:
            # special first / last code point around otherwise plain text
            out.append(('str bom-first x%d' % n, '\ufeff' + 'a' * (n - 1)))
            out.append(('str cr-last x%d' % n, 'a' * (n - 1) + '\r'))
            out.append(('str nul-first x%d' % n, '\x00' + 'a' * (n - 1)))
    if not json_only:
        for name, unit in BYTE_CLASSES.items():
            for n in lengths(m):
                out.append(('bytes %s x%d' % (name, n), fill(unit, n)))
        out += [
            ('tuple', (1, 'a', b'b', None, 2.5)),
            ('nested', {'k': [1, (2, 3), {'z': None}], 5: {1, 2}}),
            ('frozenset', frozenset([1, 'x'])),
            ('shared', (lambda x: [x, x])(['s'])),
            ('bytearray', bytearray(b'ab\r\n')),
            ('complex', 3 + 4j),
            ('tagged-small', Tagged('t', mark=7)),
            ('tagged-big', Tagged('t' * (m + 3), mark=[1])),
            ('rawbytes-sub', Raw(b'r' * 3)),
            ('rawbytes-sub-big', Raw(b'r' * (m + 3))),
            ('enum', Colour.RED), ('enum-long', Colour.LONG),
            ('list-nan', [float('nan'), -0.0]),
        ]
        # containers whose pickle straddles the threshold
        for n in range(max(m - 24, 0), m + 3):
            out.append(('straddle %d' % n, ('x' * n,)))
    else:
        out += [
            ('list', [1, 'a', None, 2.5, True]),
            ('dict', {'k': [1, {'z': None}], 'e': ''}),
            ('list-big', ['y' * (m + 3)]),
            ('str-in-list-cr', ['\r\n' * 4]),
        ]
        for n in range(max(m - 12, 0), m + 3):
            out.append(('straddle %d' % n, ['x' * n]))
    return out


class Slow:
    """Stream that returns at most one byte per read (short reads)."""

    def __init__(self, data):
        self.data = data
        self.pos = 0

    def read(self, n=-1):
        b = self.data[self.pos:self.pos + 1]
        self.pos += 1
        return b


def streams(m):
    out = []
    for n in lengths(m) + [m + 7]:
        data = fill(b'\x00\r\n\xffz', n)
        out.append(('stream bytesio x%d' % n, data, lambda d: io.BytesIO(d)))
        out.append(('stream 2chunks x%d' % n, data,
                    lambda d: Chunks([d[:len(d) // 2], d[len(d) // 2:]]
                                     if len(d) > 1 else [d] if d else [])))
        if n <= 40:
            out.append(('stream short-reads x%d' % n, data, lambda d: Slow(d)))
    return out


def accessors(dc, cache, directory):
    """name -> (store(value, **kw) , fetch()) pairs working on a fresh key."""
    state = {'n': 0}

    def fresh():
        state['n'] += 1
        return 'k%d' % state['n']

    acc = {}

    def mapping(fetch):
        def go(value, read=False):
            k = fresh()
            r = call(cache.set, k, value, read=read)
            if isinstance(r, Raises):
                return r, ('absent', call(cache.get, k, 'ABSENT'))
            return r, fetch(k)
        return go

    acc['get'] = mapping(lambda k: call(cache.get, k))
    acc['getitem'] = mapping(lambda k: call(cache.__getitem__, k))
    acc['pop'] = mapping(lambda k: call(cache.pop, k))
    acc['get-read'] = mapping(lambda k: call(cache.get, k, read=True))
    acc['read'] = mapping(lambda k: call(cache.read, k))
    acc['get-tuple'] = mapping(
        lambda k: call(lambda: cache.get(k, expire_time=True, tag=True)[0]))

    def add_then_get(value, read=False):
        k = fresh()
        r = call(cache.add, k, value, read=read)
        if isinstance(r, Raises):
            return r, ('absent', call(cache.get, k, 'ABSENT'))
        return r, call(cache.get, k)
    acc['add+get'] = add_then_get

    def peekitem(value, read=False):
        cache.clear()
        k = fresh()
        r = call(cache.set, k, value, read=read)
        if isinstance(r, Raises):
            return r, ('absent', call(cache.get, k, 'ABSENT'))
        return r, call(lambda: cache.peekitem()[1])
    acc['peekitem'] = peekitem

    def queue(fetch_name, side_push, side_pull):
        def go(value, read=False):
            cache.clear()
            r = call(cache.push, value, prefix='q', side=side_push, read=read)
            if isinstance(r, Raises):
                return r, ('absent', call(cache.peek, 'q'))
            return True, call(
                lambda: getattr(cache, fetch_name)('q', side=side_pull)[1])
        return go
    acc['push+pull'] = queue('pull', 'back', 'front')
    acc['pushfront+pullback'] = queue('pull', 'front', 'back')
    acc['push+peek'] = queue('peek', 'back', 'back')
    return acc


def container_accessors(dc, root):
    acc = {}

    def deque(fetch):
        def go(value):
            d = dc.Deque(directory=root + '/dq')
            try:
                d.clear()
                d.append('pad')
                r = call(d.append, value)
                if isinstance(r, Raises):
                    return r, ('absent', len(d))
                return True, fetch(d)
            finally:
                d.cache.close()
        return go
    acc['deque[-1]'] = deque(lambda d: call(d.__getitem__, -1))
    acc['deque[1]'] = deque(lambda d: call(d.__getitem__, 1))
    acc['deque.pop'] = deque(lambda d: call(d.pop))
    acc['deque.peek'] = deque(lambda d: call(d.peek))
    acc['deque.iter'] = deque(lambda d: call(lambda: list(d)[-1]))

    def dequeleft(fetch):
        def go(value):
            d = dc.Deque(directory=root + '/dq')
            try:
                d.clear()
                d.append('pad')
                r = call(d.appendleft, value)
                if isinstance(r, Raises):
                    return r, ('absent', len(d))
                return True, fetch(d)
            finally:
                d.cache.close()
        return go
    acc['deque.popleft'] = dequeleft(lambda d: call(d.popleft))
    acc['deque.peekleft'] = dequeleft(lambda d: call(d.peekleft))

    def index(fetch):
        def go(value):
            ix = dc.Index(root + '/ix')
            try:
                ix.clear()
                r = call(ix.__setitem__, 'k', value)
                if isinstance(r, Raises):
                    return r, ('absent', len(ix))
                return True, fetch(ix)
            finally:
                ix.cache.close()
        return go
    acc['index[]'] = index(lambda ix: call(ix.__getitem__, 'k'))
    acc['index.pop'] = index(lambda ix: call(ix.pop, 'k'))
    acc['index.popitem'] = index(lambda ix: call(lambda: ix.popitem()[1]))
    acc['index.values'] = index(lambda ix: call(lambda: list(ix.values())[0]))
    acc['index.setdefault'] = index(lambda ix: call(ix.setdefault, 'k', 'no'))
    return acc


def work(unit):
    import diskcache as dc
    disk, mfs, proto, level, tier = unit
    root = run.fresh_dir('g')
    ENV.reset(run.scratch())
    part = {'states': 0, 'transitions': 0, 'executions': 0, 'violations': [],
            'outcomes': {}, 'samples': [], 'caps': [],
            'label': 'grid/%s' % disk}
    json_only = disk == 'json'
    settings = {'disk_min_file_size': mfs}
    if json_only:
        cache = dc.Cache(root + '/c', disk=dc.JSONDisk,
                         disk_compress_level=level, **settings)
    else:
        cache = dc.Cache(root + '/c', disk_pickle_protocol=proto, **settings)
    cfg = {'disk': disk, 'min_file_size': mfs, 'protocol': proto,
           'compress': level}

    def report(label, accessor, stored, got, clause):
        kind = re.sub(r'[ x]*\d+$', '', label.split(' x')[0])
        part['violations'].append({
            'signature': {'clause': clause, 'value': kind,
                          'inline': _inline(stored, mfs), 'disk': disk},
            'message': '%s: stored %s via %s under %r, got %s' % (
                clause, _abbr(stored), accessor, cfg, _abbr(got)),
            'replay': {'engine': 'GRID', 'module': 'props.c01',
                       'unit': list(unit), 'label': label,
                       'accessor': accessor},
        })

    def judge(label, accessor, stored, outcome):
        part['transitions'] += 1
        part['executions'] += 1
        stored_r, got = outcome
        okey = '%s/%s' % (accessor, 'rejected' if isinstance(stored_r, Raises)
                          else type(got).__name__)
        part['outcomes'][okey] = part['outcomes'].get(okey, 0) + 1
        if isinstance(stored_r, Raises):
            # rejected with an exception: nothing may have been stored
            if got[0] == 'absent' and got[1] not in ('ABSENT', 0, 1,
                                                     (None, None)):
                report(label, accessor, stored, got[1], 'rejected-but-stored')
            return
        want = stored
        if accessor in ('get-read', 'read') or label.startswith('stream'):
            if isinstance(got, tuple) and len(got) == 2 and got[0] == 'handle':
                got = got[1]
        if not rich_same(got, want):
            report(label, accessor, stored, got, 'altered')

    try:
        acc = accessors(dc, cache, root)
        vals = values(mfs, json_only)
        if tier == 'quick' and mfs == 2 ** 15 and proto not in (None, 5):
            vals = [v for v in vals if 'straddle' not in v[0]]
        for label, value in vals:
            part['states'] += 1
            for name, fn in acc.items():
                if json_only and name in ('get-read', 'read'):
                    continue   # read=True bypasses JSONDisk decoding by design
                judge(label, name, value, fn(value))
            if len(part['samples']) < 2 and 'cr x' in label:
                part['samples'].append({'config': cfg, 'value': label,
                                        'accessors': sorted(acc)})
        if proto == 5 or (tier == 'thorough' and not json_only):
            cacc = container_accessors(dc, root)
            for label, value in vals:
                for name, fn in cacc.items():
                    judge(label, name, value, fn(value))
        if not json_only:
            for label, data, make in streams(mfs):
                part['states'] += 1
                for name in ('get', 'getitem', 'pop', 'get-read', 'read',
                             'add+get', 'peekitem', 'push+pull', 'push+peek'):
                    judge(label, name, data, acc[name](make(data), read=True))
        # depth-2 histories: every ordered pair of representation classes
        reps = representatives(mfs, json_only)
        for la, va in reps:
            for lb, vb in reps:
                cache.clear()
                ra = call(cache.set, 'p', _mk(va), read=_is_stream(va))
                rb = call(cache.set, 'p', _mk(vb), read=_is_stream(vb))
                got = call(cache.get, 'p')
                part['transitions'] += 1
                part['executions'] += 1
                want = _content(vb)
                if isinstance(rb, Raises):
                    want = _content(va) if not isinstance(ra, Raises) else None
                if not rich_same(got, want):
                    report('%s then %s' % (la, lb), 'overwrite+get', want, got,
                           'altered')
    finally:
        cache.close()
        run.drop(root)
    return part


def _is_stream(v):
    return isinstance(v, tuple) and len(v) == 2 and v[0] == '$stream'


def _mk(v):
    return io.BytesIO(v[1]) if _is_stream(v) else v


def _content(v):
    return v[1] if _is_stream(v) else v


def representatives(m, json_only):
    big = m + 5
    reps = [('raw-int', 7), ('raw-str', fill('s', max(m - 1, 0))),
            ('text-file', fill('t\r\n', big)),
            ('inline-pickle', ['p']) if json_only else ('inline-pickle', ('p',)),
            ('file-pickle', ['q' * big]) if json_only
            else ('file-pickle', ('q' * big,))]
    if not json_only:
        reps += [('raw-bytes', fill(b'b', max(m - 1, 0))),
                 ('binary-file', fill(b'B\r\n', big)),
                 ('stream', ('$stream', fill(b'S\x00', big)))]
    return reps


def _inline(v, m):
    try:
        return len(v) < m
    except TypeError:
        return True


def _abbr(v):
    r = repr(v)
    return r if len(r) < 80 else r[:40] + '...%d...' % len(r) + r[-20:]


def fault_unit(unit):
    """A transient OS error at every file event of a file-backed store: the
    store is rejected (key keeps what it held) or the value is intact."""
    import diskcache as dc
    from ..fault import FaultHook
    _, mfs = unit
    part = {'states': 0, 'transitions': 0, 'executions': 0, 'violations': [],
            'outcomes': {}, 'samples': [], 'caps': [], 'label': 'fault/write'}
    big = mfs + 40
    cases = [
        # iterating the value yields one chunk per line: three chunks each
        ('bytes', fill(b'0123456789abcdef', big // 2) + b'\n' +
         fill(b'fedcba', big // 2) + b'\nend', False),
        ('str', fill('text \xe9', big // 2) + '\r\n' +
         fill('more', big // 2) + '\nend', False),
        ('pickle', ('q' * big, [1, 2]), False),
        ('stream-2chunks', fill(b'S\x00\r\n', big), True),
    ]
    for label, value, stream in cases:
        def mk():
            if stream:
                return Chunks([value[:len(value) // 2],
                               value[len(value) // 2:]])
            return value
        root = run.fresh_dir('f')
        ENV.reset(run.scratch())
        cache = dc.Cache(root, disk_min_file_size=mfs)
        hook = FaultHook(None)
        ENV.hook = hook
        try:
            cache.set('k', mk(), read=stream)
        finally:
            ENV.hook = None
        log = hook.log
        cache.close()
        run.drop(root)
        part['states'] += 1
        for i, (kind, _) in enumerate(log):
            if kind == 'sql':
                continue
            for prior in (None, 'old'):
                root = run.fresh_dir('f')
                ENV.reset(run.scratch())
                cache = dc.Cache(root, disk_min_file_size=mfs)
                if prior:
                    cache.set('k', prior)
                hook = FaultHook((i, 'fail'))
                ENV.hook = hook
                try:
                    r = call(cache.set, 'k', mk(), read=stream)
                finally:
                    hook.enabled = False
                    ENV.hook = None
                got = call(cache.get, 'k', 'ABSENT')
                part['transitions'] += 1
                part['executions'] += 1
                ok = (same(got, value) if not isinstance(r, Raises)
                      else (got == (prior or 'ABSENT') or same(got, value)))
                key = '%s/%s' % (kind, 'rejected' if isinstance(r, Raises)
                                 else 'stored')
                part['outcomes'][key] = part['outcomes'].get(key, 0) + 1
                if not ok:
                    part['violations'].append({
                        'signature': {'clause': 'altered-after-io-error',
                                      'value': label, 'event': kind},
                        'message': 'altered-after-io-error: storing %s (%d '
                                   'items) with an OS error at event %d %r: '
                                   'set -> %r, later get -> %s'
                                   % (label, len(value), i, log[i], r,
                                      _abbr(got)),
                        'replay': {'engine': 'FAULT', 'module': 'props.c01',
                                   'unit': list(unit), 'label': label,
                                   'accessor': 'fault@%d' % i}})
                cache.close()
                run.drop(root)
    return part


COUNTER_STARTS = [0, 1, -1, 7, 2 ** 31, 2 ** 53, 2 ** 53 + 1, 2 ** 62,
                  2 ** 63 - 2, 2 ** 63 - 1, -2 ** 63, -2 ** 63 + 1, 2 ** 64,
                  0.5, -0.0, 1e16, 1.7e308, float('inf'), True]
COUNTER_DELTAS = [1, 2, 5, 2 ** 53, 2 ** 62, 2 ** 63 - 1, 2 ** 63, 0.5, 1e16,
                  1.7e308, True]


def counter_unit(unit):
    """incr/decr write a number back: what a later lookup returns must be
    exactly (type and value) what the call returned, which must be the Python
    sum; a rejected call leaves the old number.  Includes results that leave
    the 64-bit range and int/float mixes."""
    import diskcache as dc
    _, kind = unit
    part = {'states': 0, 'transitions': 0, 'executions': 0, 'violations': [],
            'outcomes': {}, 'samples': [], 'caps': [],
            'label': 'grid/counter'}
    root = run.fresh_dir('n')
    ENV.reset(run.scratch())
    if kind == 'fanout':
        cache = dc.FanoutCache(root, shards=2)
    else:
        cache = dc.Cache(root)
    n = 0
    try:
        for start in COUNTER_STARTS:
            part['states'] += 1
            for delta in COUNTER_DELTAS:
                for name in ('incr', 'decr'):
                    for absent in (False, True):
                        n += 1
                        key = 'n%d' % n
                        if absent:
                            r = call(getattr(cache, name), key, delta,
                                     default=start)
                            before = 'ABSENT'
                        else:
                            stored = call(cache.set, key, start)
                            if stored is not True:
                                continue    # start itself cannot be stored
                            before = cache.get(key)
                            r = call(getattr(cache, name), key, delta)
                        got = call(cache.get, key, 'ABSENT')
                        part['transitions'] += 1
                        part['executions'] += 1
                        try:
                            want = start + delta if name == 'incr' \
                                else start - delta
                        except OverflowError:
                            want = None
                        if isinstance(r, Raises):
                            ok = same(got, before)
                            outcome = 'rejected'
                        else:
                            ok = same(r, want) and same(got, r)
                            outcome = 'stored'
                        part['outcomes'][outcome] = \
                            part['outcomes'].get(outcome, 0) + 1
                        if not ok:
                            part['violations'].append({
                                'signature': {'clause': 'counter-not-exact',
                                              'op': name, 'target': kind},
                                'message': 'counter-not-exact: %s %r (%s) '
                                           '%s(%r) returned %r, Python says '
                                           '%r, a later get returns %r'
                                           % (kind, start,
                                              'as default' if absent else
                                              'stored', name, delta, r, want,
                                              got),
                                'replay': {'engine': 'GRID',
                                           'module': 'props.c01',
                                           'unit': list(unit),
                                           'label': '%r/%r' % (start, delta),
                                           'accessor': name}})
    finally:
        cache.close()
        run.drop(root)
    part['samples'].append({'starts': len(COUNTER_STARTS),
                            'deltas': len(COUNTER_DELTAS)})
    return part


def plan(tier):
    units = []
    for mfs in (0, 1, 16, 2 ** 15):
        protos = range(0, 6) if tier == 'thorough' or mfs == 16 else (0, 2, 5)
        for proto in protos:
            units.append(('pickle', mfs, proto, None, tier))
        for level in ((0, 1, 9) if tier == 'thorough' or mfs == 16 else (1,)):
            units.append(('json', mfs, None, level, tier))
    return units


def dispatch(unit):
    if unit[0] == 'fault':
        return fault_unit(unit)
    if unit[0] == 'counter':
        return counter_unit(unit)
    return work(unit)


def main(tier, seed):
    rep = run.Report('C01', tier, seed, TECHNIQUE)
    units = run.shuffled(plan(tier), seed)
    units += [('fault', m) for m in (16, 2 ** 15)]
    units += [('counter', 'cache'), ('counter', 'fanout')]
    for part in run.pmap(dispatch, units):
        rep.merge(part, part.get('label'))
    rep.bounds = {
        'thresholds': [0, 1, 16, 32768],
        'lengths': 'every length in {0,1,2,m-1,m,m+1} per character class; '
                   'containers whose pickle straddles m byte by byte',
        'serializers': 'Disk protocols 0-5, JSONDisk compress 0/1/9 (all in '
                       'thorough; protocols {0,2,5}, level 1 for thresholds '
                       '!= 16 in quick)',
        'configs': len(units),
        'counters': '%d start values x %d deltas x incr/decr x stored/default '
                    '(results leaving the 64-bit range, int/float mixes) on '
                    'Cache and FanoutCache' % (len(COUNTER_STARTS),
                                               len(COUNTER_DELTAS)),
        'faults': 'an OS error injected at every file event (mkdir, create, '
                  'each write chunk, close) of storing a file-backed bytes / '
                  'text / pickle / 2-chunk stream value, over an absent and '
                  'a present key',
    }
    rep.assumptions = [
        'values outside the alphabet (other types, other lengths) are not '
        'covered; custom Disk subclasses are out of scope',
        'states = distinct stored values, transitions = store+fetch pairs',
    ]
    return run.finish(rep)


def replay(rp):
    run._worker_init()
    unit = tuple(rp['unit'])
    part = dispatch(unit)
    hits = [v for v in part['violations']
            if v['replay']['label'] == rp['label']
            and v['replay']['accessor'] == rp['accessor']]
    for v in hits[:3]:
        print('REPRODUCED:', v['message'])
    return 1 if hits else 0
