"""Exhaustive population sweep across the literal page size 100 used by
iteration and bulk removal: every n in 0..210 x shape x paged operation."""
from ..env import ENV
from ..worlds import CacheWorld

NMAX = 210

OPS_COMMON = [('keys',), ('rkeys',), ('iterkeys', False), ('iterkeys', True),
              ('len',), ('clear',), ('expire',), ('cull',)]


def key_of(i):
    return i if i % 3 else 'k%03d' % i


def build(world, shape, n):
    """Populate through the API (fast path: model updated, no snapshot)."""
    fast = world.apply_fast
    if shape == 'onetag':
        for i in range(n):
            fast(('set', key_of(i), i, None, 't'))
    elif shape == 'alt':
        for i in range(n):
            fast(('set', key_of(i), i, None, 't' if i % 2 else 'u'))
    elif shape == 'holes':
        for i in range(n):
            fast(('set', key_of(i), i, None, 't' if i % 2 else None))
        for i in range(95, min(n, 106)):
            fast(('delete', key_of(i)))
        for i in range(0, min(n, 3)):
            fast(('delete', key_of(i)))
    elif shape == 'sameexp':
        for i in range(n):
            fast(('set', key_of(i), i, 1, 't'))
        fast(('set', 'live', 1, None, None))
        ENV.now += 2
    elif shape == 'halfexp':
        # distinct expiry times, half of them passed, live items mixed in
        for i in range(n):
            fast(('set', key_of(i), i, 1 + i, None))
            if i % 50 == 7:
                fast(('set', 'live%d' % i, i, None, 't'))
        ENV.now += 1 + n // 2 + 0.5
    elif shape.startswith('split'):
        # two expiry times; the first shared by `cut` items
        cut = int(shape[5:])
        for i in range(n):
            fast(('set', key_of(i), i, 1 if i < cut else 2, None))
        fast(('set', 'live', 1, None, None))
        ENV.now += 3
    elif shape == 'edge':
        # some items exactly at their expiry instant, some strictly past
        for i in range(n):
            fast(('set', key_of(i), i, 1 if i % 2 else 2, None))
        ENV.now += 2
    else:
        raise ValueError(shape)


def ops_for(shape):
    ops = list(OPS_COMMON)
    if shape in ('onetag', 'alt', 'holes'):
        ops += [('evict', 't'), ('evict', 'u'), ('peekitem', True, 0)]
    else:
        ops += [('set', 'new', 1, None, None), ('peekitem', False, 0),
                ('peekitem', True, 0), ('evict', 't')]
    return ops


def sweep_unit(unit):
    _, prop, shape, ns, settings = unit
    part = {'states': 0, 'transitions': 0, 'executions': 0, 'violations': [],
            'outcomes': {}, 'samples': [], 'caps': [], 'label': 'sweep/' + shape}
    for n in ns:
        for op in ops_for(shape):
            w = CacheWorld(settings)
            try:
                build(w, shape, n)
                got, problems = w.apply(op)
                part['transitions'] += 1
                part['executions'] += 1
                k = '%s:%s' % (op[0], repr(got)[:24] if not isinstance(
                    got, list) else 'list%d' % len(got))
                part['outcomes'][k] = part['outcomes'].get(k, 0) + 1
                if problems:
                    v = w.violation((('populate', shape, n), op), problems)
                    v['signature']['shape'] = shape.rstrip('0123456789')
                    v['signature']['over_page'] = n > 100
                    part['violations'].append(v)
                if n in (0, 101, 205) and op[0] in ('expire', 'keys') \
                        and len(part['samples']) < 3:
                    part['samples'].append({'populate': [shape, n],
                                            'op': list(op),
                                            'result': repr(got)[:80]})
            finally:
                w.close()
        part['states'] += 1
    return part


def sweep_units(prop, tier):
    if prop == 'C03':
        shapes = ['onetag', 'alt', 'holes', 'sameexp', 'halfexp']
        setts = [{'disk_min_file_size': 2 ** 15}]
        if tier == 'thorough':
            setts.append({'tag_index': 1, 'statistics': 1,
                          'eviction_policy': 'least-recently-used'})
    else:
        shapes = ['sameexp', 'halfexp', 'edge'] + [
            'split%d' % c for c in (1, 50, 99, 100, 101, 150, 199, 200, 201)]
        setts = [{'cull_limit': 10}]
        if tier == 'thorough':
            setts += [{'cull_limit': 0}, {'cull_limit': 1},
                      {'cull_limit': 200, 'tag_index': 1}]
    units = []
    ns = list(range(NMAX + 1))
    for shape in shapes:
        for s in setts:
            for c in range(8):
                units.append(('sweep', prop, shape, ns[c::8], s))
    return units
