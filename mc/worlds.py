"""Worlds: the real library object + reference model + conformance check for
one history.  One World = one fresh directory and one live object."""
import io
import os
import shutil

from . import run
from .alpha import Snapshot
from .env import ENV, T0, SpinDetected
from .spec import Raises, SpecCache, norm_key, same

SENTINEL = 'DFLT'   # an explicit default distinguishable from None

_templates = {}


def val(tok):
    """Value tokens -> Python values (tokens keep histories JSON-able)."""
    if isinstance(tok, (tuple, list)) and tok and isinstance(tok[0], str) \
            and tok[0].startswith('$'):
        kind, n = tok[0], tok[1]
        if kind == '$T':
            # non-ASCII on purpose: character count != UTF-8 byte count
            return '\xe9' + 'T' * (n - 1)
        if kind == '$B':
            return b'B' * n
        if kind == '$P':
            return ('P' * n, 1)
        if kind == '$t':
            return tuple(val(x) for x in tok[1:])
        if kind == '$Y':
            return YieldVal(n, tok[2] if len(tok) > 2 else 0)
        raise ValueError(tok)
    return tok


def _user_code(what):
    """User code that runs in the middle of a library call (an object's
    pickling hooks): a scheduling point under SCHED, so that another thread
    of the same Cache object can run while this one is inside Disk.store /
    Disk.fetch."""
    hook = ENV.hook
    if hook is not None and hasattr(hook, 'point'):
        hook.before('user-code', what)
        hook.after('user-code', what, None)


def _rebuild_yieldval(n, pad):
    _user_code('unpickle')
    return YieldVal(n, len(pad))


class YieldVal:
    """A value whose pickling and unpickling run Python code."""

    def __init__(self, n, pad=0):
        self.n = n
        self.pad = pad

    def __reduce__(self):
        _user_code('pickle')
        return (_rebuild_yieldval, (self.n, 'y' * self.pad))

    def __deepcopy__(self, memo):
        return self

    def __eq__(self, other):
        return type(other) is YieldVal and (other.n, other.pad) == (
            self.n, self.pad)

    def __hash__(self):
        return hash(('YieldVal', self.n, self.pad))

    def __repr__(self):
        return 'YieldVal(%r, %r)' % (self.n, self.pad)


class Chunks:
    """Binary stream delivered in several read() chunks."""

    def __init__(self, pieces):
        self.pieces = list(pieces)

    def read(self, n=-1):
        return self.pieces.pop(0) if self.pieces else b''


def normalize(result):
    """Make a library result comparable: close handles, drain iterators."""
    if isinstance(result, tuple):
        return tuple(normalize(x) for x in result)
    if hasattr(result, 'read') and hasattr(result, 'close'):
        try:
            data = result.read()
        finally:
            result.close()
        return ('handle', data)
    return result


def call(fn, *args, **kwargs):
    """Run library code; exceptions become Raises outcomes.  Harness-level
    exceptions (SpinDetected and friends) propagate."""
    try:
        return normalize(fn(*args, **kwargs))
    except HardAbort:
        return Raises('BlockAbort')
    except (SpinDetected, KeyboardInterrupt, SystemExit, MemoryError):
        raise
    except Exception as exc:
        return Raises(type(exc).__name__)


def flags(bits):
    out = {}
    if bits & 1:
        out['read'] = True
    if bits & 2:
        out['expire_time'] = True
    if bits & 4:
        out['tag'] = True
    if bits & 8:
        out['default'] = SENTINEL
    return out


def template(kind, settings, make):
    """Directory holding an initialised empty object; copied per world."""
    key = (kind, repr(sorted(settings.items())))
    path = _templates.get(key)
    if path is None or not os.path.exists(path):
        path = run.fresh_dir('tmpl')
        ENV.reset(run.scratch())
        make(path)
        _templates[key] = path
    return path


class BlockAbort(Exception):
    """Raised by the harness inside a transaction block."""


class HardAbort(BaseException):
    """Like BlockAbort but not an Exception (KeyboardInterrupt, SystemExit,
    GeneratorExit, CancelledError behave like this)."""


def impl_op(c, op):
    name = op[0]
    a = op[1:]
    if name == 'block':
        # ('block', body, raise_after): raise_after=None commits
        # an optional 4th field 'hard' aborts with a BaseException
        abort = HardAbort if len(a) > 2 and a[2] == 'hard' else BlockAbort

        def run_block():
            out = []
            with c.transact():
                for i, b in enumerate(a[0]):
                    if a[1] is not None and i == a[1]:
                        raise abort()
                    out.append(impl_op(c, b))
                if a[1] is not None and a[1] >= len(a[0]):
                    raise abort()
            return tuple(out)
        return call(run_block)
    if name == 'iternext':
        # a suspended iteration: the first call creates the iterator and
        # takes one key, later calls take the next one
        def run_next():
            it = c.__dict__.get('_verif_iter')
            if it is None:
                it = c.__dict__['_verif_iter'] = iter(c)
            return next(it, 'END')
        return call(run_next)
    if name == 'check':
        # ('check', fix): kinds of the warnings reported
        def run_check():
            import warnings as _w
            with _w.catch_warnings():
                _w.simplefilter('always')
                return sorted({str(x.message).split(':')[0]
                               for x in c.check(fix=a[0], retry=True)
                               if 'empty directory' not in str(x.message)})
        return call(run_check)
    if name == 'open':
        # another handle is opened on the directory (all of __init__),
        # used once and closed
        def run_open():
            other = type(c)(c.directory)
            try:
                return len(other)
            finally:
                other.close()
        return call(run_open)
    if name == 'nested':
        # inner block that raises and is caught: ('nested', body)
        def run_nested():
            try:
                with c.transact():
                    for b in a[0]:
                        impl_op(c, b)
                    raise BlockAbort()
            except BlockAbort:
                return 'caught'
        return call(run_nested)
    if name == 'set':
        return call(c.set, a[0], val(a[1]), expire=a[2], tag=a[3])
    if name == 'setitem':
        return call(c.__setitem__, a[0], val(a[1]))
    if name == 'set_read':
        return call(c.set, a[0], io.BytesIO(val(a[1])), expire=a[2],
                    tag=a[3], read=True)
    if name == 'set_chunks':
        return call(c.set, a[0], Chunks(a[1]), expire=a[2], tag=a[3],
                    read=True)
    if name == 'add':
        return call(c.add, a[0], val(a[1]), expire=a[2], tag=a[3])
    if name == 'get':
        return call(c.get, a[0], **flags(a[1]))
    if name == 'getitem':
        return call(c.__getitem__, a[0])
    if name == 'read':
        return call(c.read, a[0])
    if name == 'contains':
        return call(c.__contains__, a[0])
    if name == 'touch':
        return call(c.touch, a[0], expire=a[1])
    if name == 'incr':
        return call(c.incr, a[0], a[1], a[2])
    if name == 'decr':
        return call(c.decr, a[0], a[1], a[2])
    if name == 'pop':
        kw = flags(a[1])
        kw.pop('read', None)
        return call(c.pop, a[0], **kw)
    if name == 'delete':
        return call(c.delete, a[0])
    if name == 'delitem':
        def delitem():
            del c[a[0]]
        return call(delitem)
    if name == 'clear':
        return call(c.clear)
    if name == 'evict':
        return call(c.evict, a[0])
    if name == 'expire':
        return call(c.expire)
    if name == 'cull':
        return call(c.cull)
    if name == 'len':
        return call(len, c)
    if name == 'keys':
        return call(lambda: list(c))
    if name == 'rkeys':
        return call(lambda: list(reversed(c)))
    if name == 'iterkeys':
        return call(lambda: list(c.iterkeys(reverse=a[0])))
    if name == 'peekitem':
        kw = flags(a[1])
        kw.pop('read', None)
        kw.pop('default', None)
        return call(c.peekitem, a[0], **kw)
    if name == 'stats':
        return call(c.stats, enable=a[0], reset=a[1])
    if name == 'push':
        return call(c.push, val(a[0]), prefix=a[1], side=a[2],
                    expire=a[3], tag=a[4])
    if name in ('pull', 'peek'):
        kw = flags(a[2])
        kw.pop('read', None)
        if 'default' in kw:
            kw['default'] = (None, SENTINEL)
        return call(getattr(c, name), prefix=a[0], side=a[1], **kw)
    raise ValueError(op)

def model_op(s, op):
    name = op[0]
    a = op[1:]
    if name == 'block':
        import copy
        trial = copy.deepcopy(s)
        out = []
        for i, b in enumerate(a[0]):
            if a[1] is not None and i == a[1]:
                return Raises('BlockAbort')
            out.append(model_op(trial, b))
        if a[1] is not None and a[1] >= len(a[0]):
            return Raises('BlockAbort')
        s.__dict__.update(trial.__dict__)
        return tuple(out)
    if name == 'iternext':
        n = s.__dict__.get('_iter_taken', 0)
        keys = s.keys()
        s.__dict__['_iter_taken'] = n + 1
        return keys[n] if n < len(keys) else 'END'
    if name == 'check':
        return []          # an undamaged cache: nothing to report
    if name == 'open':
        return s.length()
    if name == 'nested':
        # only the outermost block commits or rolls back: the inner body's
        # effects stay
        for b in a[0]:
            model_op(s, b)
        return 'caught'
    if name in ('set', 'setitem'):
        r = s.set(a[0], val(a[1]), *(a[2:4] if name == 'set' else ()))
        return None if name == 'setitem' else r
    if name == 'set_read':
        return s.set(a[0], val(a[1]), a[2], a[3], handle=True)
    if name == 'set_chunks':
        return s.set(a[0], b''.join(a[1]), a[2], a[3], handle=True)
    if name == 'add':
        return s.add(a[0], val(a[1]), a[2], a[3])
    if name == 'get':
        return s.get(a[0], **flags(a[1]))
    if name == 'getitem':
        return s.getitem(a[0])
    if name == 'read':
        return s.read(a[0])
    if name == 'contains':
        return s.contains(a[0])
    if name == 'touch':
        return s.touch(a[0], a[1])
    if name == 'incr':
        return s.incr(a[0], a[1], a[2])
    if name == 'decr':
        return s.decr(a[0], a[1], a[2])
    if name == 'pop':
        kw = flags(a[1])
        kw.pop('read', None)
        return s.pop(a[0], **kw)
    if name == 'delete':
        return s.delete(a[0])
    if name == 'delitem':
        return s.delitem(a[0])
    if name == 'clear':
        return s.clear()
    if name == 'evict':
        return s.evict(a[0])
    if name in ('expire', 'cull'):
        return None   # relational, see check_removal
    if name == 'len':
        return s.length()
    if name == 'keys':
        return s.keys()
    if name == 'rkeys':
        return s.rkeys()
    if name == 'iterkeys':
        return s.sorted_keys(reverse=a[0])
    if name == 'peekitem':
        kw = flags(a[1])
        kw.pop('read', None)
        kw.pop('default', None)
        return s.peekitem(a[0], **kw)
    if name == 'stats':
        return s.stats(a[0], a[1])
    if name == 'push':
        return s.push(val(a[0]), a[1], a[2], a[3], a[4])
    if name in ('pull', 'peek'):
        kw = flags(a[2])
        kw.pop('read', None)
        if 'default' in kw:
            kw['default'] = (None, SENTINEL)
        return getattr(s, name)(a[0], side=a[1], **kw)
    raise ValueError(op)



class World:
    """Base: directory management + violation packaging."""

    prop = '?'
    kind = 'cache'

    def __init__(self):
        self.dir = run.fresh_dir()

    def close(self):
        run.drop(self.dir)

    def violation(self, hist, problems):
        clause = problems[0][0]
        return {
            'signature': dict(self.signature(hist, problems),
                              clause=clause, op=hist[-1][0]),
            'message': '%s after %r: %s' % (
                clause, list(hist), '; '.join(p[1] for p in problems)[:800]),
            'replay': {'engine': 'SEQ', 'world': type(self).__name__,
                       'module': type(self).__module__,
                       'args': self.replay_args(),
                       'config': self.config(),
                       'history': [list(h) for h in hist],
                       'problems': [list(p) for p in problems],
                       'script': self.script(hist)},
        }

    def signature(self, hist, problems):
        return {}

    def config(self):
        return {}

    def script(self, hist):
        return None

    def replay_args(self):
        return None


def op_source(op, obj='cache'):
    """Python source of one operation (for standalone replay scripts)."""
    name, a = op[0], op[1:]
    v = lambda t: repr(val(t))     # noqa: E731
    kw = lambda bits, drop=(): ', '.join(     # noqa: E731
        '%s=%r' % (k, x) for k, x in flags(bits).items() if k not in drop)
    if name == 'tick':
        return 'clock[0] += %r' % (a[0],)
    if name in ('set', 'add'):
        return '%s.%s(%r, %s, expire=%r, tag=%r)' % (obj, name, a[0], v(a[1]),
                                                     a[2], a[3])
    if name == 'setitem':
        return '%s[%r] = %s' % (obj, a[0], v(a[1]))
    if name == 'get':
        return '%s.get(%r%s)' % (obj, a[0], (', ' + kw(a[1])) if a[1] else '')
    if name == 'getitem':
        return '%s[%r]' % (obj, a[0])
    if name == 'read':
        return '%s.read(%r)' % (obj, a[0])
    if name == 'contains':
        return '%r in %s' % (a[0], obj)
    if name == 'touch':
        return '%s.touch(%r, expire=%r)' % (obj, a[0], a[1])
    if name in ('incr', 'decr'):
        return '%s.%s(%r, %r, %r)' % (obj, name, a[0], a[1], a[2])
    if name == 'pop':
        k = kw(a[1], ('read',))
        return '%s.pop(%r%s)' % (obj, a[0], (', ' + k) if k else '')
    if name == 'delete':
        return '%s.delete(%r)' % (obj, a[0])
    if name == 'delitem':
        return 'del %s[%r]' % (obj, a[0])
    if name in ('clear', 'expire', 'cull'):
        return '%s.%s()' % (obj, name)
    if name == 'evict':
        return '%s.evict(%r)' % (obj, a[0])
    if name == 'len':
        return 'len(%s)' % obj
    if name == 'keys':
        return 'list(%s)' % obj
    if name == 'rkeys':
        return 'list(reversed(%s))' % obj
    if name == 'iterkeys':
        return 'list(%s.iterkeys(reverse=%r))' % (obj, a[0])
    if name == 'peekitem':
        k = kw(a[1], ('read', 'default'))
        return '%s.peekitem(%r%s)' % (obj, a[0], (', ' + k) if k else '')
    if name == 'stats':
        return '%s.stats(enable=%r, reset=%r)' % (obj, a[0], a[1])
    if name == 'push':
        return '%s.push(%s, prefix=%r, side=%r, expire=%r, tag=%r)' % (
            obj, v(a[0]), a[1], a[2], a[3], a[4])
    if name in ('pull', 'peek'):
        return '%s.%s(prefix=%r, side=%r)' % (obj, name, a[0], a[1])
    return '# %r' % (op,)


class CacheWorld(World):
    """diskcache.Cache against SpecCache."""

    def script(self, hist):
        lines = ['import tempfile', 'from unittest import mock',
                 'import diskcache', '', 'clock = [%r]' % T0,
                 "with mock.patch('time.time', lambda: clock[0]):",
                 '    cache = diskcache.%s(tempfile.mkdtemp()%s)' % (
                     type(self.cache).__name__,
                     ''.join(', %s=%r' % kv for kv in
                             sorted(self.settings.items())))]
        for op in hist:
            src = op_source(op)
            if src.startswith(('clock', 'del ', '#')) or ' = ' in src:
                lines.append('    ' + src)
            else:
                lines.append('    print(%r, "->", %s)' % (src, src))
        return '\n'.join(lines)

    def __init__(self, settings=None, track_stats=True, prefix=()):
        import diskcache
        super().__init__()
        self.settings = dict(settings or {})
        self.prefix = tuple(prefix)
        tmpl = template('cache', self.settings,
                        lambda p: diskcache.Cache(p, **self.settings).close())
        shutil.copytree(tmpl, self.dir)
        ENV.reset(run.scratch())
        self.cache = diskcache.Cache(self.dir, **self.settings)
        s = self.settings
        self.spec = SpecCache(
            policy=s.get('eviction_policy', 'least-recently-stored'),
            statistics=s.get('statistics', False),
            cull_limit=s.get('cull_limit', 10),
            min_file_size=s.get('disk_min_file_size', 2 ** 15),
            clock=lambda: ENV.now,
            pickle_protocol=s.get('disk_pickle_protocol', 5),
        )
        for op in self.prefix:     # seeded non-initial start state
            self.apply_fast(op)

    def replay_args(self):
        if self.prefix:
            return [self.settings, True, [list(op) for op in self.prefix]]
        return None

    def config(self):
        return self.settings

    def close(self):
        try:
            self.cache.close()
        except Exception:
            pass
        super().close()

    def impl(self, op):
        return impl_op(self.cache, op)

    def model(self, op):
        return model_op(self.spec, op)

    # -- admissibility of physically removed items ---------------------------
    def check_removal(self, op, missing, result):
        """missing: norm keys the model still holds but the library removed.
        Returns problems.  Overridden for size-based eviction (C09)."""
        s = self.spec
        name = op[0]
        problems = []
        dead = s.expired_keys(strict=False)
        if name in ('expire', 'cull'):
            must = s.expired_keys(strict=True)
            left = must - set(missing)
            if left:
                problems.append(('expire-leaves-expired',
                                 '%s() left %d expired item(s) behind: %r'
                                 % (name, len(left), sorted(left)[:4])))
            extra = set(missing) - dead
            if extra:
                problems.append(('removed-live',
                                 '%s() removed live item(s) %r'
                                 % (name, sorted(extra)[:4])))
            if not same(result, len(missing)):
                problems.append(('removal-count',
                                 '%s() returned %r but removed %d item(s)'
                                 % (name, result, len(missing))))
            return problems
        if not missing:
            return problems
        if not s.culls:
            problems.append(('removed-unasked',
                             '%r made %r disappear' % (op, sorted(missing))))
            return problems
        extra = set(missing) - dead
        if extra:
            problems.append(('removed-live',
                             'write %r removed live item(s) %r (size limit '
                             'not reached)' % (op, sorted(extra))))
        if len(missing) > s.cull_limit:
            problems.append(('cull-limit',
                             'write %r removed %d items, cull_limit=%d'
                             % (op, len(missing), s.cull_limit)))
        return problems

    def apply_fast(self, op):
        """Both sides, no snapshot.  Falls back to the checked path whenever
        the library could have removed something on its own."""
        if op[0] == 'tick':
            ENV.now += op[1]
            return
        s = self.spec
        if s.expired_keys(strict=False):
            got, problems = self.apply(op)
            if problems:
                raise AssertionError('populate %r: %r' % (op, problems))
            return
        s.culls = False
        self.snap = None
        got = self.impl(op)
        want = self.model(op)
        if not same(got, want):
            raise AssertionError('populate %r: %r != %r' % (op, got, want))

    def apply(self, op):
        if op[0] == 'tick':
            ENV.now += op[1]
            return None, []
        s = self.spec
        s.culls = False
        got = self.impl(op)
        want = self.model(op)
        problems = []
        relational = op[0] in ('expire', 'cull')
        if not relational and not same(got, want):
            problems.append(('result', '%r returned %r, reference says %r'
                             % (op, got, want)))
        snap = Snapshot(self.dir)
        rows = snap.contents()
        have = set()
        for k, _, _, _ in rows:
            try:
                have.add(norm_key(k))
            except TypeError:
                pass
        missing = [nk for nk in s.items if nk not in have]
        problems += self.check_removal(op, missing, got)
        s.forget(missing)
        want_rows = s.rows()
        if len(rows) != len(want_rows) or not all(
                same(tuple(x), tuple(y)) for x, y in zip(rows, want_rows)):
            problems.append(('contents', 'after %r contents are %r, reference '
                             'says %r' % (op, _short(rows), _short(want_rows))))
        if (snap.settings.get('hits'), snap.settings.get('misses')) != \
                (s.hits, s.misses):
            problems.append(('statistics', 'after %r hits/misses are %r, '
                             'reference says %r' % (
                                 op, (snap.settings.get('hits'),
                                      snap.settings.get('misses')),
                                 (s.hits, s.misses))))
        bad = snap.audit()
        if bad:
            problems.append(('bookkeeping', '; '.join(bad[:4])))
        self.snap = snap
        return got, problems

    def canon(self):
        snap = getattr(self, 'snap', None) or Snapshot(self.dir)
        c = self.cache
        mirrored = tuple(
            (k, getattr(c, k, None)) for k in (
                'statistics', 'tag_index', 'eviction_policy', 'size_limit',
                'cull_limit', 'disk_min_file_size'))
        return (snap.canon(), mirrored, ENV.now - T0)

    def signature(self, hist, problems):
        return {'world': type(self).__name__}


def _short(rows):
    out = []
    for r in rows[:6]:
        out.append(tuple(
            (x[:12] + type(x)('..') if isinstance(x, (str, bytes))
             and len(x) > 14 else x) for x in r))
    if len(rows) > 6:
        out.append('... %d rows' % len(rows))
    return out
