"""Abstraction function: read a cache directory *without* the library.

Uses a harness-owned raw sqlite3 connection and plain file reads.  Knows the
released on-disk format (schema, four key/value storage modes, xx/yy/*.val
layout) -- the same knowledge property C18 pins.
"""
import hashlib
import io
import json
import os
import pickle
import zlib

from .env import real_connect, real_open

DB = 'cache.db'


def decode_key(dbkey, raw, json_disk=False):
    if raw:
        key = bytes(dbkey) if isinstance(dbkey, (bytes, memoryview)) else dbkey
    else:
        key = pickle.load(io.BytesIO(dbkey))
    if json_disk:
        key = json.loads(zlib.decompress(key).decode('utf-8'))
    return key


def decode_value(directory, mode, filename, value, json_disk=False):
    """Return (value, error) decoded by storage mode."""
    try:
        if mode == 1:
            out = bytes(value) if isinstance(value, (bytes, memoryview)) else value
        elif mode == 2:
            with real_open(os.path.join(directory, filename), 'rb') as f:
                out = f.read()
        elif mode == 3:
            with real_open(os.path.join(directory, filename), 'rb') as f:
                out = f.read().decode('utf-8')
        elif mode == 4:
            if value is None:
                with real_open(os.path.join(directory, filename), 'rb') as f:
                    out = pickle.load(f)
            else:
                out = pickle.load(io.BytesIO(value))
        else:
            return None, 'mode %r' % (mode,)
        if json_disk:
            out = json.loads(zlib.decompress(out).decode('utf-8'))
        return out, None
    except Exception as exc:  # unreadable value is an observation
        return None, '%s: %s' % (type(exc).__name__, exc)


class Snapshot:
    """Everything observable in one cache directory."""

    def __init__(self, directory, json_disk=False):
        self.directory = directory
        self.rows = []       # dicts in rowid order
        self.settings = {}
        self.files = {}      # relative path -> size
        self.dirs = set()    # relative directories (excluding top)
        self.empty_dirs = set()
        self.errors = []
        self.page_count = self.page_size = None
        con = real_connect(os.path.join(directory, DB), timeout=5,
                           isolation_level=None)
        try:
            cur = con.execute(
                'SELECT rowid, key, raw, store_time, expire_time, access_time,'
                ' access_count, tag, size, mode, filename, value'
                ' FROM Cache ORDER BY rowid')
            cols = [c[0] for c in cur.description]
            for r in cur.fetchall():
                row = dict(zip(cols, r))
                try:
                    row['pykey'] = decode_key(row['key'], row['raw'], json_disk)
                except Exception as exc:
                    row['pykey'] = None
                    self.errors.append('key rowid=%s: %r' % (row['rowid'], exc))
                val, err = decode_value(directory, row['mode'],
                                        row['filename'], row['value'],
                                        json_disk)
                row['pyvalue'] = val
                row['verror'] = err
                self.rows.append(row)
            self.settings = dict(
                con.execute('SELECT key, value FROM Settings').fetchall())
            self.page_count = con.execute('PRAGMA page_count').fetchall()[0][0]
            self.page_size = con.execute('PRAGMA page_size').fetchall()[0][0]
        finally:
            con.close()
        for dirpath, dirs, files in os.walk(directory):
            rel = os.path.relpath(dirpath, directory)
            if rel != '.':
                self.dirs.add(rel)
                if not dirs and not files:
                    self.empty_dirs.add(rel)
            for name in files:
                if rel == '.' and name.startswith(DB):
                    continue
                p = os.path.join(dirpath, name)
                self.files[os.path.relpath(p, directory)] = os.path.getsize(p)

    # -- views -------------------------------------------------------------
    def contents(self):
        """[(key, value, expire_time, tag)] in insertion (rowid) order."""
        return [(r['pykey'], r['pyvalue'], r['expire_time'], r['tag'])
                for r in self.rows]

    def audit(self):
        """C08 bookkeeping audit; returns list of problems (empty = clean).
        Empty directories are harmless and not reported."""
        bad = list(self.errors)
        st = self.settings
        if st.get('count') != len(self.rows):
            bad.append('count %r != rows %d' % (st.get('count'), len(self.rows)))
        total = 0
        referenced = set()
        for r in self.rows:
            fn = r['filename']
            if fn is None:
                if r['size'] not in (0, None):
                    bad.append('inline row %r has size %r' % (r['pykey'], r['size']))
                continue
            referenced.add(fn)
            total += r['size'] or 0
            if fn not in self.files:
                bad.append('row %r: file %s missing' % (r['pykey'], fn))
            elif self.files[fn] != r['size']:
                bad.append('row %r: file %s has %d bytes, recorded %r'
                           % (r['pykey'], fn, self.files[fn], r['size']))
            if r['verror']:
                bad.append('row %r unreadable: %s' % (r['pykey'], r['verror']))
        for r in self.rows:
            if r['filename'] is None and r['verror']:
                bad.append('row %r unreadable: %s' % (r['pykey'], r['verror']))
        size = sum((r['size'] or 0) for r in self.rows)
        if st.get('size') != size:
            bad.append('size %r != sum %d' % (st.get('size'), size))
        for fn in sorted(set(self.files) - referenced):
            bad.append('unreferenced file %s' % fn)
        return bad

    def canon(self, with_settings=True):
        """Canonical, hashable form used to deduplicate states.  Row ids are
        replaced by ranks, file names by content digests."""
        rows = []
        for r in self.rows:
            fn = r['filename']
            if fn is not None:
                try:
                    with real_open(os.path.join(self.directory, fn), 'rb') as f:
                        fd = hashlib.sha1(f.read()).hexdigest()[:12]
                except OSError:
                    fd = 'missing'
            else:
                fd = None
            value = r['value']
            if isinstance(value, (bytes, memoryview)):
                value = bytes(value)
            key = r['key']
            if isinstance(key, (bytes, memoryview)):
                key = bytes(key)
            rows.append((repr(key), r['raw'], r['store_time'], r['expire_time'],
                         r['access_time'], r['access_count'], repr(r['tag']),
                         r['size'], r['mode'], fd, repr(value)))
        extra = tuple(sorted(
            (k, repr(v)) for k, v in self.settings.items()
            if with_settings and not k.startswith('sqlite_')))
        stray = tuple(sorted(
            (self.files[f]) for f in self.files
            if f not in {r['filename'] for r in self.rows}))
        return (tuple(rows), extra, stray, len(self.empty_dirs))

    def digest(self):
        return hashlib.sha1(repr(self.canon()).encode()).hexdigest()


def tree(directory):
    """Sorted listing of files (with sizes) and directories, excluding the
    database's own files.  Used for 'nothing changed' comparisons."""
    out = []
    for dirpath, dirs, files in os.walk(directory):
        rel = os.path.relpath(dirpath, directory)
        if rel != '.':
            out.append(('d', rel))
        for name in files:
            if rel == '.' and name.startswith(DB):
                continue
            p = os.path.join(dirpath, name)
            with real_open(p, 'rb') as f:
                h = hashlib.sha1(f.read()).hexdigest()[:12]
            out.append(('f', os.path.relpath(p, directory), h))
    return sorted(out)
