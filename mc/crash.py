"""CRASH: real SIGKILL of a forked worker at every shim-level event boundary
(before each SQL statement, file create/write/close/remove, directory
create/remove), then recovery checks by a handle opened before the kill and
by handles opened after it."""
import os
import signal
import struct

from .env import ENV


class KillHook:
    """Counts events; kills the process right before event number ``at``."""

    def __init__(self, at=None):
        self.n = 0
        self.at = at
        self.log = []

    def _tick(self, kind, label):
        if self.at is not None and self.at >= 0 and self.n == self.at:
            os.kill(os.getpid(), signal.SIGKILL)
        self.n += 1
        if self.at is None:
            self.log.append((kind, label))

    def run_sql(self, con, sql, args):
        import sqlite3
        self._tick('sql', ' '.join(sql.split()[:2]).upper())
        return sqlite3.Connection.execute(con, sql, *args)

    def before(self, kind, info):
        self._tick(kind, str(info))

    def after(self, kind, info, exc):
        pass


def shim():
    """The LD_PRELOAD kill shim, if this process was started with it."""
    import ctypes
    if 'killshim' not in os.environ.get('LD_PRELOAD', ''):
        return None
    try:
        lib = ctypes.CDLL(None)
        lib.ks_arm.argtypes = [ctypes.c_long, ctypes.c_char_p]
        lib.ks_count.restype = ctypes.c_long
        return lib
    except (OSError, AttributeError):
        return None


def run_child(work, at, sys_at=None, sys_prefix=None):
    """Fork; the child runs work(journal) under a KillHook(at).

    sys_at: kill right before the sys_at-th write-class system call below
    sys_prefix (needs the LD_PRELOAD shim); -1 = only count them.

    work(journal) must call journal(i) after completing operation i.
    Returns (completed_ops, event_log or None, killed: bool)."""
    r_go, w_go = os.pipe()
    r_j, w_j = os.pipe()
    pid = os.fork()
    if pid == 0:
        code = 0
        try:
            os.close(w_go)
            os.close(r_j)
            os.read(r_go, 1)            # wait for the parent's handle
            hook = KillHook(at if sys_at is None else -1)
            ENV.hook = hook
            lib = shim() if sys_at is not None else None
            if lib is not None:
                lib.ks_arm(sys_at, sys_prefix.encode())

            def journal(i):
                os.write(w_j, struct.pack('<i', i))

            work(journal)
            ENV.hook = None
            if lib is not None:
                n = lib.ks_count()
                lib.ks_disarm()
                os.write(w_j, struct.pack('<i', -2) + struct.pack('<i', n))
            if at is None and sys_at is None:
                import json
                data = json.dumps(hook.log).encode()
                os.write(w_j, struct.pack('<i', -1))
                os.write(w_j, struct.pack('<i', len(data)) + data)
        except BaseException:
            import traceback
            traceback.print_exc()
            code = 3
        finally:
            os._exit(code)
    os.close(r_go)
    os.close(w_j)
    return pid, w_go, r_j


def finish_child(pid, r_j):
    _, status = os.waitpid(pid, 0)
    data = b''
    while True:
        chunk = os.read(r_j, 65536)
        if not chunk:
            break
        data += chunk
    os.close(r_j)
    completed = 0
    log = None
    finish_child.syscalls = None
    off = 0
    while off + 4 <= len(data):
        (v,) = struct.unpack_from('<i', data, off)
        off += 4
        if v == -2:
            (finish_child.syscalls,) = struct.unpack_from('<i', data, off)
            off += 4
        elif v == -1:
            (n,) = struct.unpack_from('<i', data, off)
            off += 4
            import json
            log = json.loads(data[off:off + n].decode())
            off += n
        else:
            completed = v + 1
    killed = os.WIFSIGNALED(status) and os.WTERMSIG(status) == signal.SIGKILL
    failed = os.WIFEXITED(status) and os.WEXITSTATUS(status) != 0
    return completed, log, killed, failed
