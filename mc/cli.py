"""CLI: check <ID> [quick|thorough] | check replay <path>"""
import importlib
import os
import sys


def main(argv):
    # kill -USR1 <pid> prints every thread's stack (inherited by workers)
    import faulthandler
    import signal
    faulthandler.register(signal.SIGUSR1, all_threads=True)
    if not argv:
        print(__doc__)
        return 2
    if argv[0] == 'replay':
        from . import replay
        return replay.main(argv[1])
    prop = argv[0].upper()
    tier = argv[1] if len(argv) > 1 else os.environ.get('VERIF_TIER', 'quick')
    seed = int(os.environ.get('VERIF_SEED', '0') or 0)
    mod = importlib.import_module('mc.props.' + prop.lower())
    return mod.main(tier, seed)


if __name__ == '__main__':
    sys.exit(main(sys.argv[1:]))
