"""SCHED: controlled scheduler for 2-4 clients on one cache directory.

Every client is a real OS thread running a short program against the real
library.  Exactly one client runs at a time (semaphore baton).  A scheduling
point sits before every SQL statement and every file-system operation of the
library (see env.py); operation + result form one atomic step.  The search is
depth-first over choice sequences by re-execution, with a visited set over
global states, optionally preemption-bounded.

SQLite decides contention: connections use busy timeout 0, a statement that
answers SQLITE_BUSY blocks its client until another client ends a
transaction (answer "wait"), or - when the scenario asks - is delivered to
the library (answer "timeout", used by FAULT-style scenarios).
"""
import hashlib
import sqlite3
import threading
import time

from . import run
from .alpha import Snapshot, tree
from .env import ENV, T0

HORIZON = 600
SOLO = 250


class Abort(BaseException):
    """Unwinds a client when the execution is pruned or cut."""


class Deadlock(Exception):
    pass


class Rows:
    """Result of one statement.  Wraps the real cursor (so a statement the
    library leaves half-read keeps its read snapshot, exactly as it would
    outside the harness) and records what the client fetched."""

    def __init__(self, cur, client=None):
        self._cur = cur
        self._client = client
        self.description = cur.description
        self.rowcount = cur.rowcount
        self.lastrowid = cur.lastrowid

    def _seen(self, rows):
        if self._client is not None:
            self._client.observe('rows', rows)
        return rows

    def fetchall(self):
        try:
            return self._seen(self._cur.fetchall())
        except sqlite3.ProgrammingError:
            return []

    def fetchone(self):
        return self._seen(self._cur.fetchone())

    def fetchmany(self, size=1):
        return self._seen(self._cur.fetchmany(size))

    def __iter__(self):
        return self

    def __next__(self):
        return self._seen(next(self._cur))

    def close(self):
        self._cur.close()


def verb(sql):
    return sql.lstrip().split(None, 1)[0].upper() if sql.strip() else ''


class Client:
    def __init__(self, cid, program):
        self.cid = cid
        self.program = program
        self.go = threading.Semaphore(0)
        self.state = 'new'          # new | parked | running | done
        self.pending = None
        self.blocked = False        # waiting for the write lock
        self.sleeping = False
        self.pc = 0
        self.obs = hashlib.sha1()
        self.nobs = 0
        self.results = []           # (op, result, call_step, return_step)
        self.call_step = None
        self.call_vecs = []         # per started op: ops completed by others
        self.error = None
        self.cons = []
        self.thread = None
        self.obs_mark = self.obs.copy()
        self.nobs_mark = 0
        self.wake_at = None

    def observe(self, *what):
        self.obs.update(repr(what).encode())
        self.nobs += 1

    def where(self):
        """Control state of the parked client: the library frames on its
        stack.  Two clients with equal observation logs but different
        control locations (they read different values from memory the
        harness does not watch) must not be merged."""
        import sys
        if self.thread is None or self.state == 'done':
            return ()
        frame = sys._current_frames().get(self.thread.ident)
        out = []
        while frame is not None:
            if '/diskcache/' in frame.f_code.co_filename:
                out.append((frame.f_code.co_name, frame.f_lineno))
            frame = frame.f_back
        return tuple(out)

    def local_key(self):
        return (self.pc, self.nobs, self.obs.hexdigest()[:16], self.state,
                self.blocked, self.sleeping, tuple(self.call_vecs),
                self.wake_at, self.where())


class Execution:
    """One run of a scenario under a given choice prefix."""

    def __init__(self, scenario, prefix, visited, bound=None, por=True):
        self.sc = scenario
        self.prefix = prefix
        self.visited = visited
        self.bound = bound
        self.por = por
        self.ctl = threading.Semaphore(0)
        self.abort = False
        self.clients = []
        self.trace = []             # chosen cids
        self.points = []            # (index, alternatives, preemptions_before)
        self.step = 0
        self.last = None
        self.preemptions = 0
        self.pruned = False
        self.cut = None
        self.deadlock = False
        self.livelock = None
        self.solo = (None, 0)
        self.write_cons = set()
        self.con_owner = {}
        self.busy_answers = scenario.busy_answers  # {(cid, n): 'timeout'}
        self.busy_seen = {}
        self.steps_log = []

    # -- hook interface (called from client threads) -----------------------
    def me(self):
        cid = ENV.client()
        if cid == 0:
            return None
        return self.clients[cid - 1]

    def connected(self, con):
        c = self.me()
        if c is not None:
            c.cons.append(con)
            self.con_owner[id(con)] = c.cid

    def closing(self, con):
        self.write_cons.discard(id(con))
        self._wake()

    def _unsleep(self):
        if getattr(self.sc, 'timed_sleep', False):
            return
        for other in self.clients:
            other.sleeping = False

    def _wake(self):
        for c in self.clients:
            c.blocked = False

    def point(self, c, what):
        if self.abort:
            raise Abort()
        c.pending = what
        c.state = 'parked'
        self.ctl.release()
        c.go.acquire()
        if self.abort:
            raise Abort()
        c.state = 'running'
        if c.call_step is None:
            c.call_step = self.step
            # real-time precedence is part of the state: which operations of
            # the other clients had returned when this one took its first step
            c.call_vecs.append(tuple(len(o.results) for o in self.clients))

    def run_sql(self, con, sql, args):
        c = self.me()
        if c is None or self.abort:
            try:
                return sqlite3.Connection.execute(con, sql, *args)
            except sqlite3.OperationalError:
                # the execution is over: a client that would now spin on a
                # failing statement (retry loops do not sleep) is unwound
                if c is not None and self.abort:
                    raise Abort()
                raise
        v = verb(sql)
        holder = id(con) in self.write_cons
        invisible = (self.por and holder and con.in_transaction
                     and v not in ('COMMIT', 'ROLLBACK', 'END')
                     and not getattr(c, 'failed_stmt', False))
        c.failed_stmt = False
        while True:
            if not invisible:
                self.point(c, ('sql', v))
            try:
                cur = sqlite3.Connection.execute(con, sql, *args)
                rows = Rows(cur, c)
            except sqlite3.OperationalError as exc:
                if 'locked' in str(exc) or 'busy' in str(exc):
                    n = self.busy_seen.get(c.cid, 0)
                    self.busy_seen[c.cid] = n + 1
                    if self.busy_answers.get((c.cid, n)) == 'timeout':
                        c.observe('sql', v, 'BUSY-delivered')
                        raise
                    c.blocked = True
                    invisible = False
                    continue
                # a statement after a failed one is always a scheduling
                # point, so that a retry loop around a statement that can
                # never succeed stays under the scheduler's control
                c.failed_stmt = True
                c.observe('sql', v, type(exc).__name__, str(exc))
                raise
            except Exception as exc:
                c.failed_stmt = True
                c.observe('sql', v, type(exc).__name__, str(exc))
                raise
            if v == 'BEGIN' and ('IMMEDIATE' in sql.upper()
                                 or 'EXCLUSIVE' in sql.upper()):
                self.write_cons.add(id(con))
            elif v in ('COMMIT', 'ROLLBACK', 'END'):
                self.write_cons.discard(id(con))
                self._wake()
            elif not con.in_transaction and v not in ('SELECT', 'PRAGMA'):
                self._wake()
            c.observe('sql', v, rows.rowcount)
            self._unsleep()
            return rows

    def before(self, kind, info):
        c = self.me()
        if c is None or self.abort:
            return
        self.point(c, (kind, info))

    def after(self, kind, info, exc):
        c = self.me()
        if c is None:
            return
        c.observe(kind, info, None if exc is None else type(exc).__name__)
        self._unsleep()

    def shared_access(self, kind, name):
        # reads and writes of memory shared between threads of one Cache
        # object are scheduling points when the scenario shares the object
        c = self.me()
        if c is None or self.abort or c.state != 'running':
            return
        if getattr(self.sc, 'mode', None) == 'shared':
            self.point(c, ('mem-' + kind, name))

    def shared_read(self, name, value):
        c = self.me()
        if c is not None:
            c.observe('read', name, value)

    def shared_write(self, name, value):
        c = self.me()
        if c is not None:
            c.observe('write', name, value)

    def sleep(self, seconds):
        c = self.me()
        if c is None:
            return
        # A spin loop carries no local state across iterations (assumption,
        # see DESIGN): collapse the observation log to the operation start so
        # that the visited-state cache closes the loop.
        c.obs = c.obs_mark.copy()
        c.nobs = c.nobs_mark
        c.sleeping = True
        if getattr(self.sc, 'timed_sleep', False):
            import math
            # a sleep always lets some time pass, at least the smallest
            # representable step of the virtual clock
            c.wake_at = max(ENV.now + seconds,
                            math.nextafter(ENV.now, math.inf))
        c.observe('sleep')
        self.point(c, ('sleep', seconds))
        c.sleeping = False
        c.wake_at = None

    # -- client thread body --------------------------------------------------
    def body(self, c):
        ENV.set_client(c.cid)
        try:
            c.go.acquire()
            if self.abort:
                raise Abort()
            c.state = 'running'
            for i, op in enumerate(c.program):
                c.pc = i
                c.call_step = None
                c.obs_mark = c.obs.copy()
                c.nobs_mark = c.nobs
                result = self.sc.perform(self, c, op)
                c.results.append((op, result, c.call_step
                                  if c.call_step is not None else self.step,
                                  self.step))
                c.observe('ret', repr(result))
            c.pc = len(c.program)
        except Abort:
            pass
        except BaseException as exc:   # harness bug or unexpected escape
            c.error = exc
        finally:
            try:
                self.sc.client_exit(self, c)
            except BaseException:
                pass
            c.state = 'done'
            self.ctl.release()

    # -- controller -------------------------------------------------------------
    def shared_memory(self):
        """Plain attributes of objects that several clients share (their
        Python-level shared memory)."""
        out = []
        seen = set()
        for obj in getattr(self.sc, 'objects', []) or []:
            stack = [obj]
            while stack:
                o = stack.pop()
                if id(o) in seen or not hasattr(o, '__dict__'):
                    continue
                seen.add(id(o))
                for k, v in sorted(vars(o).items()):
                    if isinstance(v, (int, float, str, bool, type(None))):
                        out.append((type(o).__name__, k, v))
                    elif isinstance(v, (tuple, list)) and v and hasattr(
                            v[0], '__dict__') and len(v) <= 16:
                        stack.extend(v)      # FanoutCache._shards
        return tuple(out)

    def state_key(self):
        shared = self.sc.shared_key(self)
        locals_ = tuple(c.local_key() for c in self.clients)
        key = (shared, locals_, tuple(sorted(
            self.con_owner.get(i, 0) for i in self.write_cons)), ENV.now)
        if self.bound is not None:
            key += (self.bound - self.preemptions, self.last)
        return hashlib.sha1(repr(key).encode()).digest()

    def enabled(self):
        parked = [c for c in self.clients if c.state in ('parked', 'new')]
        timed = getattr(self.sc, 'timed_sleep', False)
        if timed:
            for c in parked:
                if c.sleeping and c.wake_at is not None \
                        and c.wake_at <= ENV.now:
                    c.sleeping = False
        ready = [c for c in parked if not c.blocked and not c.sleeping]
        if ready:
            return ready
        sleepers = [c for c in parked if c.sleeping and not c.blocked]
        if timed and sleepers:
            # every unfinished client sleeps: virtual time jumps to the
            # earliest wake-up
            ENV.now = min(c.wake_at for c in sleepers)
            woke = [c for c in sleepers if c.wake_at <= ENV.now]
            for c in woke:
                c.sleeping = False
            return woke
        return sleepers

    def run(self):
        sc = self.sc
        sc.setup(self)
        self.clients = [Client(i + 1, prog)
                        for i, prog in enumerate(sc.programs)]
        ENV.hook = self
        for c in self.clients:
            c.thread = threading.Thread(target=self.body, args=(c,),
                                        daemon=True)
            c.thread.start()
        running = None
        try:
            while True:
                if running is not None:
                    self.ctl.acquire()
                if any(c.error for c in self.clients):
                    break
                en = self.enabled()
                if not en:
                    if any(c.state != 'done' for c in self.clients):
                        self.deadlock = True
                    break
                if self.step >= HORIZON:
                    self.cut = 'horizon %d' % HORIZON
                    break
                # livelock: for SOLO steps in a row one client was the only
                # enabled one, stayed inside the same operation and no
                # virtual time passed (a retry loop that can never succeed)
                if len(en) == 1:
                    mark = (en[0].cid, len(en[0].results), ENV.now)
                    self.solo = (mark, self.solo[1] + 1) \
                        if self.solo[0] == mark else (mark, 1)
                    if self.solo[1] >= SOLO:
                        self.livelock = (
                            'client %d repeated %r %d times inside operation '
                            '%d with nobody else enabled and the clock '
                            'standing still' % (en[0].cid, en[0].pending,
                                                SOLO, len(en[0].results)))
                        break
                else:
                    self.solo = (None, 0)
                order = sorted(en, key=lambda c: (c.cid != self.last, c.cid))
                i = len(self.trace)
                if i < len(self.prefix):
                    want = self.prefix[i]
                    pick = [c for c in order if c.cid == want]
                    if not pick:
                        raise RuntimeError(
                            'divergence while replaying prefix %r at %d: '
                            'enabled %r' % (self.prefix, i,
                                            [c.cid for c in order]))
                    choice = pick[0]
                else:
                    key = self.state_key()
                    if self.visited is not None:
                        if key in self.visited:
                            self.pruned = True
                            break
                        self.visited.add(key)
                    choice = order[0]
                    alts = []
                    for c in order[1:]:
                        cost = self.preemptions
                        if self.last is not None and self.last != c.cid and \
                                any(x.cid == self.last for x in en):
                            cost += 1
                        if self.bound is None or cost <= self.bound:
                            alts.append(c.cid)
                    if alts:
                        self.points.append((i, alts))
                if self.last is not None and choice.cid != self.last and \
                        any(x.cid == self.last for x in en):
                    self.preemptions += 1
                self.trace.append(choice.cid)
                self.steps_log.append((choice.cid, choice.pending))
                self.last = choice.cid
                self.step += 1
                running = choice
                choice.go.release()
        finally:
            self.abort = True
            for c in self.clients:
                c.go.release()
            for c in self.clients:
                c.thread.join(10)
                if c.thread.is_alive():
                    import sys
                    import traceback
                    fr = sys._current_frames().get(c.thread.ident)
                    where = ''.join(traceback.format_stack(fr)[-6:]) \
                        if fr is not None else ''
                    raise RuntimeError('client %d did not stop; it is at\n%s'
                                       % (c.cid, where))
            ENV.hook = None
        for c in self.clients:
            if c.error is not None:
                raise c.error
        self.complete = (not self.pruned and not self.cut
                         and not self.deadlock and not self.livelock)
        return self


def explore(scenario_factory, bound=None, por=True, max_execs=None,
            time_cap=None, use_cache=True):
    """Enumerate all schedules of a scenario (DFS by re-execution).

    scenario_factory() -> fresh Scenario (fresh directory and objects).
    Returns part dict; scenario.check(execution) -> problems per complete
    execution.
    """
    t0 = time.perf_counter()
    part = {'states': 0, 'transitions': 0, 'executions': 0, 'violations': [],
            'outcomes': {}, 'samples': [], 'caps': [], 'complete': 0,
            'pruned': 0}
    visited = set() if use_cache else None
    stack = [[]]
    first = True
    while stack:
        if max_execs and part['executions'] >= max_execs:
            part['caps'].append('max_execs=%d' % max_execs)
            break
        if time_cap and time.perf_counter() - t0 > time_cap:
            part['caps'].append('time_cap=%ss' % time_cap)
            break
        prefix = stack.pop()
        sc = scenario_factory()
        try:
            ex = Execution(sc, prefix, visited, bound, por).run()
            part['executions'] += 1
            part['transitions'] += len(ex.trace) - len(prefix) + (
                1 if prefix else 0)
            for i, alts in ex.points:
                for alt in alts:
                    stack.append(ex.trace[:i] + [alt])
            problems = []
            if ex.cut:
                part['caps'].append(ex.cut)
            if ex.deadlock:
                problems.append(('deadlock', 'no client enabled; states %r'
                                 % [(c.cid, c.state, c.blocked, c.pending)
                                    for c in ex.clients]))
            if ex.livelock:
                problems.append(('livelock', ex.livelock))
            if ex.complete:
                part['complete'] += 1
                problems += sc.check(ex)
                ok = sc.outcome(ex)
                part['outcomes'][ok] = part['outcomes'].get(ok, 0) + 1
                if len(part['samples']) < 2:
                    part['samples'].append(
                        {'scenario': sc.describe(), 'schedule': ex.trace,
                         'results': [[repr(r[1])[:60] for r in c.results]
                                     for c in ex.clients]})
            elif ex.pruned:
                part['pruned'] += 1
            if problems:
                part['violations'].append(sc.violation(ex, problems))
            if first and ex.complete:
                # obligation (a): identical replay of the first execution
                first = False
                sc2 = scenario_factory()
                try:
                    ex2 = Execution(sc2, list(ex.trace), None, None, por).run()
                    if [c.obs.hexdigest() for c in ex2.clients] != \
                            [c.obs.hexdigest() for c in ex.clients] \
                            or ex2.trace != ex.trace:
                        raise RuntimeError(
                            'nondeterminism: schedule %r replayed differently '
                            '(%s)' % (ex.trace, sc.describe()))
                finally:
                    sc2.teardown()
        finally:
            sc.teardown()
    part['states'] = len(visited) if visited is not None else part['transitions']
    if not part['complete'] and not part['caps'] and not part['violations']:
        raise RuntimeError('vacuous exploration: no execution completed (%s)'
                           % (scenario_factory().describe(),))
    return part
