"""Replay one recorded counterexample without any search."""
import importlib
import json

from . import run


def main(path):
    with open(path) as f:
        body = json.load(f)
    rp = run.dec(body['replay'])
    run._worker_init()
    engine = rp['engine']
    if engine == 'SEQ':
        mod = importlib.import_module(rp.get('module', 'mc.worlds'))
        cls = getattr(mod, rp['world'])
        cfg = rp.get('config') or {}
        if isinstance(cfg, tuple):
            cfg = {}
        args = rp.get('args')
        if args:
            w = cls(*args)
        else:
            w = cls(cfg) if cfg else cls()
        try:
            if rp['history'] and rp['history'][0][0] == 'populate':
                from .props.sweep import build
                _, shape, n = rp['history'][0]
                build(w, shape, n)
                hist = rp['history'][1:]
            else:
                hist = rp['history']
            problems = []
            for op in hist:
                got, problems = w.apply(op)
                print('%-60r -> %r' % (op, got))
                if problems:
                    break
        finally:
            w.close()
        if problems:
            print('REPRODUCED: %r' % (problems,))
            return 1
        print('not reproduced (history conforms on this tree)')
        return 0
    mod = importlib.import_module('mc.' + rp['module'])
    if hasattr(mod, 'replay') and not (
            engine in ('GRID', 'FAULT') and rp.get('generic')):
        try:
            return mod.replay(rp)
        except (KeyError, TypeError, ValueError, IndexError):
            pass   # a record this module's replay does not know: fall back
    return rerun(body)


def rerun(body):
    """Fallback for records without a dedicated replay: run the property's
    check again (same tier, no search state is reused) into a scratch output
    directory and report whether a violation with the same signature
    appears."""
    import os
    import shutil
    import tempfile
    prop = body['property']
    want = json.dumps(body.get('signature'), sort_keys=True)
    out = tempfile.mkdtemp(prefix='verif-replay-')
    os.environ['VERIF_OUT'] = out
    os.environ['VERIF_REPLAY_ALL'] = '1'
    try:
        mod = importlib.import_module('mc.props.' + prop.lower())
        import contextlib
        import io
        with contextlib.redirect_stdout(io.StringIO()):
            mod.main(body.get('tier', 'quick'),
                     int(os.environ.get('VERIF_SEED', '0') or 0))
        rdir = os.path.join(out, 'replays', prop)
        hits = []
        for name in sorted(os.listdir(rdir)) if os.path.isdir(rdir) else []:
            if not name.endswith('.json'):
                continue
            with open(os.path.join(rdir, name)) as f:
                other = json.load(f)
            if json.dumps(other.get('signature'), sort_keys=True) == want:
                hits.append(other)
        for h in hits[:3]:
            print('REPRODUCED:', h['message'][:600])
        if not hits:
            print('not reproduced (no violation with signature %s on this '
                  'tree)' % want)
        return 1 if hits else 0
    finally:
        shutil.rmtree(out, ignore_errors=True)
