"""Replay one recorded counterexample without any search."""
import importlib
import json

from . import run


def main(path):
    with open(path) as f:
        body = json.load(f)
    rp = run.dec(body['replay'])
    run._worker_init()
    engine = rp['engine']
    if engine == 'SEQ':
        mod = importlib.import_module(rp.get('module', 'mc.worlds'))
        cls = getattr(mod, rp['world'])
        cfg = rp.get('config') or {}
        if isinstance(cfg, tuple):
            cfg = {}
        args = rp.get('args')
        if args:
            w = cls(*args)
        else:
            w = cls(cfg) if cfg else cls()
        try:
            if rp['history'] and rp['history'][0][0] == 'populate':
                from .props.sweep import build
                _, shape, n = rp['history'][0]
                build(w, shape, n)
                hist = rp['history'][1:]
            else:
                hist = rp['history']
            problems = []
            for op in hist:
                got, problems = w.apply(op)
                print('%-60r -> %r' % (op, got))
                if problems:
                    break
        finally:
            w.close()
        if problems:
            print('REPRODUCED: %r' % (problems,))
            return 1
        print('not reproduced (history conforms on this tree)')
        return 0
    mod = importlib.import_module('mc.' + rp['module'])
    return mod.replay(rp)
