"""Brute-force linearizability check of a completed concurrent history
against SpecCache (<= ~8 operations)."""
import copy

from .spec import Raises, SpecCache, norm_key, same
from .worlds import model_op

LOOKUPS = {'get', 'getitem', 'read', 'contains'}
KEY_WRITES = {'set', 'setitem', 'set_read', 'set_chunks', 'add', 'incr', 'decr', 'pop',
              'delete', 'delitem', 'touch'}
BULK = {'clear', 'evict', 'expire', 'cull'}


class Op:
    __slots__ = ('cid', 'idx', 'op', 'result', 'call', 'ret', 'may_miss')

    def __init__(self, cid, idx, op, result, call, ret):
        self.cid, self.idx, self.op = cid, idx, op
        self.result, self.call, self.ret = result, call, ret
        self.may_miss = False

    def key(self):
        if self.op[0] in LOOKUPS or self.op[0] in KEY_WRITES:
            return norm_key(self.op[1])
        return None

    def __repr__(self):
        return 'c%d:%r->%r[%s,%s]' % (self.cid, self.op, self.result,
                                      self.call, self.ret)


def miss_value(op):
    return model_op(SpecCache(clock=lambda: 0), op)


def mark_relaxation(ops):
    """R1: a lookup overlapping a write/removal/eviction of the same key may
    report a miss."""
    for o in ops:
        if o.op[0] not in LOOKUPS:
            continue
        for p in ops:
            if p.cid == o.cid:
                continue
            if p.ret < o.call or o.ret < p.call:
                continue   # not overlapping
            if p.op[0] in BULK or (p.op[0] in KEY_WRITES
                                   and p.key() == o.key()):
                o.may_miss = True


def linearize(spec0, ops, final_ok, relax=True, apply=None):
    """Return a witness order (list of Op) or None."""
    if relax:
        mark_relaxation(ops)
    ops = list(ops)
    apply = apply or model_op

    def rec(spec, remaining, order):
        if not remaining:
            return order if final_ok(spec) else None
        for o in remaining:
            if any(p.ret < o.call for p in remaining if p is not o):
                continue
            s2 = copy.deepcopy(spec)
            if hasattr(s2, "culls"):
                s2.culls = False
            want = apply(s2, o.op)
            rest = [p for p in remaining if p is not o]
            if same(want, o.result):
                got = rec(s2, rest, order + [o])
                if got is not None:
                    return got
            elif o.may_miss and same(o.result, miss_value(o.op)):
                got = rec(copy.deepcopy(spec), rest, order + [o])
                if got is not None:
                    return got
        return None

    return rec(spec0, ops, [])


def contents_ok(spec, rows):
    """Final directory contents equal the model's, except that expired items
    may already have been removed physically."""
    have = {}
    for k, v, e, t in rows:
        have[norm_key(k)] = (k, v, e, t)
    dead = spec.expired_keys(strict=False)
    want = [(nk, it) for nk, it in spec.items.items()
            if nk in have or nk not in dead]
    if len(want) != len(rows):
        return False
    for (nk, it), row in zip(want, rows):
        if not same(tuple(it.row()), tuple(row)):
            return False
    return True
