"""Scenarios for SCHED: what the clients share and how an execution is
judged."""
import copy
import shutil

from . import run
from .alpha import Snapshot, tree
from .env import ENV
from .lin import Op, contents_ok, linearize
from .spec import SpecCache
from .worlds import impl_op, model_op, template


class CacheScenario:
    """N clients, each a short program of Cache operations on one directory.

    mode 'own'    : one Cache object per client (like separate processes,
                    minus fork);
    mode 'shared' : all clients share one Cache object (thread-local
                    connections, shared _txn_id)."""

    busy_answers = {}
    relax = True

    def __init__(self, programs, init=(), mode='own', settings=None,
                 label=''):
        self.programs = programs
        self.init = init
        self.mode = mode
        self.settings = dict(settings or {})
        self.label = label
        self.dir = None

    def describe(self):
        return {'programs': [[list(op) for op in p] for p in self.programs],
                'init': [list(op) for op in self.init], 'mode': self.mode,
                'settings': self.settings}

    # -- lifecycle ---------------------------------------------------------------
    def setup(self, ex):
        import diskcache
        st = self.settings
        tmpl = template('cache', st,
                        lambda p: diskcache.Cache(p, **st).close())
        self.dir = run.fresh_dir('s')
        shutil.copytree(tmpl, self.dir)
        ENV.reset(self.dir)
        ENV.set_client(0)
        self.spec0 = SpecCache(
            policy=st.get('eviction_policy', 'least-recently-stored'),
            statistics=st.get('statistics', False),
            cull_limit=st.get('cull_limit', 10),
            min_file_size=st.get('disk_min_file_size', 2 ** 15),
            clock=lambda: ENV.now)
        boot = diskcache.Cache(self.dir, **st)
        for op in self.init:
            if op[0] == 'tick':
                ENV.now += op[1]
                continue
            impl_op(boot, op)
            model_op(self.spec0, op)
        self.boot = boot
        n = len(self.programs)
        if self.mode == 'shared':
            shared = diskcache.Cache(self.dir)
            self.caches = {i + 1: shared for i in range(n)}
            self.objects = [shared]
        else:
            self.caches = {i + 1: diskcache.Cache(self.dir)
                           for i in range(n)}
            self.objects = list(self.caches.values())
        self.idents = {}

    def perform(self, ex, c, op):
        import threading
        self.idents[threading.get_ident()] = c.cid
        return impl_op(self.caches[c.cid], op)

    def client_exit(self, ex, c):
        self.caches[c.cid].close()

    def teardown(self):
        for obj in getattr(self, 'objects', []) + [getattr(self, 'boot', None)]:
            try:
                if obj is not None:
                    obj.close()
            except Exception:
                pass
        if self.dir:
            run.drop(self.dir)

    # -- state and verdict ---------------------------------------------------------
    def shared_key(self, ex):
        snap = Snapshot(self.dir)
        txn = tuple(o._txn_id for o in self.objects) \
            if self.mode == 'shared' else ()
        return (snap.canon(), tuple(tree(self.dir)), txn)

    def ops(self, ex):
        out = []
        for c in ex.clients:
            for i, (op, result, call, ret) in enumerate(c.results):
                out.append(Op(c.cid, i, op, result, call, ret))
        return out

    def check(self, ex):
        problems = []
        snap = Snapshot(self.dir)
        rows = snap.contents()
        ops = self.ops(ex)
        order = linearize(self.spec0, ops,
                          lambda spec: contents_ok(spec, rows), self.relax)
        if order is None:
            problems.append(('not-linearizable',
                             'no sequential order explains %r with final '
                             'contents %r' % (ops, rows)))
        bad = snap.audit()
        if bad:
            problems.append(('bookkeeping', '; '.join(bad[:4])))
        return problems

    def outcome(self, ex):
        return repr([[repr(r[1])[:40] for r in c.results]
                     for c in ex.clients])

    def violation(self, ex, problems):
        d = self.describe()
        kinds = sorted({op[0] for p in self.programs for op in p})
        return {
            'signature': {'clause': problems[0][0], 'ops': '+'.join(kinds),
                          'mode': self.mode},
            'message': '%s: %s | schedule %r | %s' % (
                problems[0][0], d['programs'], ex.trace,
                '; '.join(p[1] for p in problems)[:700]),
            'replay': {'engine': 'SCHED', 'module': 'scen',
                       'scenario': type(self).__name__, 'describe': d,
                       'label': self.label,
                       'schedule': list(ex.trace),
                       'steps': [[cid, repr(p)] for cid, p in ex.steps_log],
                       'problems': [list(p) for p in problems]},
        }


def replay(rp):
    """Re-run exactly one recorded schedule (baton only, no search)."""
    from . import sched
    d = rp['describe']
    cls = globals()[rp['scenario']]
    sc = cls([list(p) for p in d['programs']], d['init'], d['mode'],
             d['settings'] if isinstance(d['settings'], dict) else {})
    try:
        ex = sched.Execution(sc, list(rp['schedule']), None, None,
                             rp.get('por', True)).run()
        for cid, pending in ex.steps_log:
            print('  client %d: %r' % (cid, pending))
        for c in ex.clients:
            print('client %d results: %r' % (c.cid, [r[:2] for r in c.results]))
        problems = sc.check(ex)
    finally:
        sc.teardown()
    if problems:
        print('REPRODUCED: %r' % (problems,))
        return 1
    print('not reproduced (schedule is explained on this tree)')
    return 0


class ObjScenario:
    """Generic SCHED scenario: every client owns one handle (Deque, Index,
    ...) on the same directory; verdict = linearizability against a small
    sequential reference given by ``apply``."""

    busy_answers = {}
    relax = False
    timed_sleep = False

    def __init__(self, programs, init, mode, label=''):
        self.programs = programs
        self.init = init
        self.mode = mode
        self.label = label
        self.dir = None

    # -- to override -------------------------------------------------------
    def make(self, directory):
        raise NotImplementedError

    def close(self, obj):
        obj.cache.close()

    def do(self, obj, op):
        raise NotImplementedError

    def spec0(self):
        raise NotImplementedError

    def apply(self, spec, op):
        raise NotImplementedError

    def final_ok(self, spec):
        return True

    def dirs(self):
        return [self.dir]

    # ---------------------------------------------------------------------------
    def describe(self):
        return {'programs': [[list(op) for op in p] for p in self.programs],
                'init': [list(op) for op in self.init], 'mode': self.mode,
                'scenario': type(self).__name__}

    def setup(self, ex):
        self.dir = run.fresh_dir('s')
        ENV.reset(self.dir)
        ENV.set_client(0)
        boot = self.make(self.dir)
        self.spec_init = self.spec0()
        for op in self.init:
            self.do(boot, op)
            self.apply(self.spec_init, op)
        self.boot = boot
        n = len(self.programs)
        shared = self.make(self.dir) if self.mode == 'shared' else None
        self.handles = {i + 1: (shared if shared is not None else self.make(self.dir))
                        for i in range(n)}
        self.objects = list({id(o): o for o in self.handles.values()}.values())

    def perform(self, ex, c, op):
        return self.do(self.handles[c.cid], op)

    def client_exit(self, ex, c):
        self.close(self.handles[c.cid])

    def teardown(self):
        for obj in getattr(self, 'objects', []) + [getattr(self, 'boot', None)]:
            try:
                if obj is not None:
                    self.close(obj)
            except Exception:
                pass
        if self.dir:
            run.drop(self.dir)

    def shared_key(self, ex):
        return (tuple(Snapshot(d).canon() for d in self.dirs()),
                tuple(tuple(tree(d)) for d in self.dirs()))

    def check(self, ex):
        ops = []
        for c in ex.clients:
            for i, (op, result, call, ret) in enumerate(c.results):
                ops.append(Op(c.cid, i, op, result, call, ret))
        self.mark(ops)
        order = linearize(copy.deepcopy(self.spec_init), ops, self.final_ok,
                          relax=False, apply=self.apply)
        problems = []
        if order is None:
            problems.append(('not-linearizable',
                             'no sequential order explains %r; final %r'
                             % (ops, self.final_view())))
        for d in self.dirs():
            bad = Snapshot(d).audit()
            if bad:
                problems.append(('bookkeeping', '; '.join(bad[:3])))
        return problems

    def mark(self, ops):
        pass

    def final_view(self):
        return None

    def outcome(self, ex):
        return repr([[repr(r[1])[:40] for r in c.results]
                     for c in ex.clients])

    def violation(self, ex, problems):
        d = self.describe()
        kinds = sorted({op[0] for p in self.programs for op in p})
        return {
            'signature': {'clause': problems[0][0], 'ops': '+'.join(kinds),
                          'mode': self.mode, 'scenario': type(self).__name__},
            'message': '%s: %s | schedule %r | %s' % (
                problems[0][0], d['programs'], ex.trace,
                '; '.join(p[1] for p in problems)[:700]),
            'replay': {'engine': 'SCHED', 'module': self.replay_module,
                       'describe': d, 'schedule': list(ex.trace),
                       'steps': [[cid, repr(p)] for cid, p in ex.steps_log],
                       'problems': [list(p) for p in problems]},
        }

    replay_module = 'scen'


def replay_obj(cls, rp):
    from . import sched
    d = rp['describe']
    sc = cls([list(p) for p in d['programs']], d['init'], d['mode'])
    try:
        ex = sched.Execution(sc, list(rp['schedule']), None, None, True).run()
        for c in ex.clients:
            print('client %d results: %r' % (c.cid, [r[:2] for r in c.results]))
        problems = sc.check(ex)
    finally:
        sc.teardown()
    if problems:
        print('REPRODUCED: %r' % (problems,))
        return 1
    print('not reproduced (schedule is explained on this tree)')
    return 0
