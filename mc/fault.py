"""FAULT: deviation-bounded environment answers for one operation.

FaultHook numbers the events of one library call (SQL statements and
file-system operations, in order) and can make event n fail:
  sql      : OperationalError before the statement runs (transaction left as
             it is); a failing COMMIT is a real ROLLBACK followed by the
             error (no impossible state is fabricated)
  fs       : OSError(EIO) before the operation; for a write optionally after
             half of the chunk reached the file
LockHook answers contended BEGINs: another connection holds the write lock
before the call, takes it at the k-th event, or releases it after a number
of failed attempts."""
import errno
import sqlite3

from .env import ENV, real_connect


class Injected(BaseException):
    pass


def brief(kind, info):
    if kind == 'sql':
        sql = info[0].strip()
        head = sql.split(None, 3)[:3]
        return ' '.join(head).upper() if head else ''
    return str(info)


class FaultHook:
    def __init__(self, plan=None):
        self.n = 0
        self.log = []
        self.plan = plan          # (index, mode) or None
        self.fired = None
        self.enabled = True

    def _hit(self):
        i = self.n
        self.n += 1
        return self.plan is not None and self.enabled and self.plan[0] == i

    def run_sql(self, con, sql, args):
        if not self.enabled:
            return sqlite3.Connection.execute(con, sql, *args)
        hit = self._hit()
        label = brief('sql', (sql,))
        self.log.append(('sql', label))
        if hit:
            self.fired = ('sql', label)
            if label.startswith('COMMIT') and con.in_transaction:
                sqlite3.Connection.execute(con, 'ROLLBACK')
            raise sqlite3.OperationalError('disk I/O error (injected)')
        return sqlite3.Connection.execute(con, sql, *args)

    def before(self, kind, info):
        if not self.enabled:
            return
        hit = self._hit()
        self.log.append((kind, str(info)))
        if hit:
            self.fired = (kind, str(info))
            raise OSError(errno.EIO, 'injected I/O error', str(info))

    def after(self, kind, info, exc):
        pass


class LockHook:
    """Another connection contends for the write lock.

    mode 'held'    : lock taken before the call, never released
    mode 'at'      : lock taken right before event ``at`` (e.g. between the
                     value-file write and BEGIN), never released
    mode 'release' : held before the call, released just before BEGIN
                     attempt number ``k`` (0-based count of failed attempts)
    """

    def __init__(self, dbpath, mode, at=None, k=None, spin_cap=50, advance=0):
        self.dbpath = dbpath
        self.mode = mode
        self.at = at
        self.k = k
        self.n = 0
        self.begins = 0
        self.log = []
        self.other = None
        self.spin_cap = spin_cap
        self.advance = advance     # virtual seconds a failed attempt takes
        self.enabled = True
        if mode in ('held', 'release'):  # 'none' and 'at' start unlocked
            self.take()

    def take(self):
        if self.other is None:
            other = real_connect(self.dbpath, timeout=0, isolation_level=None)
            try:
                other.execute('BEGIN IMMEDIATE')
            except sqlite3.OperationalError:
                other.close()     # the library holds the lock right now
                return
            self.other = other

    def release(self):
        if self.other is not None:
            self.other.execute('ROLLBACK')
            self.other.close()
            self.other = None

    def _event(self, kind, label):
        i = self.n
        self.n += 1
        self.log.append((kind, label))
        if self.mode == 'at' and i == self.at:
            self.take()

    def run_sql(self, con, sql, args):
        if not self.enabled:
            return sqlite3.Connection.execute(con, sql, *args)
        label = brief('sql', (sql,))
        self._event('sql', label)
        if label.startswith('BEGIN'):
            if self.mode == 'release' and self.begins == self.k:
                self.release()
            self.begins += 1
            if self.begins > self.spin_cap:
                raise Injected('library keeps retrying BEGIN (%d attempts)'
                               % self.begins)
            if self.advance and self.other is not None:
                try:
                    return sqlite3.Connection.execute(con, sql, *args)
                except sqlite3.OperationalError:
                    ENV.now += self.advance   # the wait took that long
                    raise
        return sqlite3.Connection.execute(con, sql, *args)

    def before(self, kind, info):
        if self.enabled:
            self._event(kind, str(info))

    def after(self, kind, info, exc):
        pass

    def sleep(self, seconds):
        # retry loops that sleep (sql_retry): count as an attempt
        self.begins += 1
        if self.mode == 'release' and self.begins >= (self.k or 0):
            self.release()
        if self.begins > self.spin_cap:
            raise Injected('library keeps sleeping (%d)' % self.begins)

    def close(self):
        self.release()
