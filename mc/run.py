"""Runner plumbing shared by all property drivers: scratch space, worker
pool, evidence, replays, known findings, exit codes."""
import atexit
import hashlib
import json
import multiprocessing
import os
import random
import shutil
import sys
import time
import traceback

VERIF = os.path.dirname(os.path.dirname(os.path.abspath(__file__)))
SCRATCH_BASE = os.environ.get('VERIF_SCRATCH', '/dev/shm')
PROCS = int(os.environ.get('VERIF_PROCS', '0')) or (os.cpu_count() or 4)

_scratch = None


def scratch():
    """Per-process scratch root (tmpfs); removed at exit."""
    global _scratch
    if _scratch is None or not _scratch.startswith(
            os.path.join(SCRATCH_BASE, 'verif-%d' % os.getpid())):
        _scratch = os.path.join(SCRATCH_BASE, 'verif-%d' % os.getpid())
        shutil.rmtree(_scratch, ignore_errors=True)
        os.makedirs(_scratch)
        atexit.register(shutil.rmtree, _scratch, True)
    return _scratch


_dir_counter = 0


def fresh_dir(tag='w'):
    global _dir_counter
    _dir_counter += 1
    path = os.path.join(scratch(), '%s%d' % (tag, _dir_counter))
    shutil.rmtree(path, ignore_errors=True)
    return path


def drop(path):
    shutil.rmtree(path, ignore_errors=True)


# ------------------------------------------------------------- workers ---

_covered = set()


def _cover_profile(frame, event, arg):
    if event == 'call':
        code = frame.f_code
        if '/diskcache/' in code.co_filename:
            _covered.add((os.path.basename(code.co_filename), code.co_name,
                          code.co_firstlineno))


def _cover_dump():
    d = os.environ.get('VERIF_COVER')
    if d and _covered:
        os.makedirs(d, exist_ok=True)
        with open(os.path.join(d, 'cover-%d.json' % os.getpid()), 'w') as f:
            json.dump(sorted(_covered), f)


def _worker_init():
    from . import env
    env.load()
    scratch()
    if os.environ.get('VERIF_COVER'):
        # audit only (tools/api_audit.py): which library functions do the
        # checks reach at all
        import threading
        sys.setprofile(_cover_profile)
        threading.setprofile(_cover_profile)


def _call(packed):
    fn, unit = packed
    try:
        t = time.perf_counter()
        out = fn(unit)
        if os.environ.get('VERIF_DEBUG'):
            sys.stderr.write('UNIT %6.1fs %s\n' % (time.perf_counter() - t,
                                                   repr(unit)[:160]))
        _cover_dump()
        return ('ok', out)
    except BaseException:
        return ('err', traceback.format_exc())


def _cleanup_worker(_):
    global _scratch
    if _scratch:
        shutil.rmtree(_scratch, ignore_errors=True)


def pmap(fn, units, procs=None, chunksize=1):
    """Run fn(unit) for every unit in worker processes (fork).  Results in
    unit order.  An exception in a unit is an internal error (exit 3)."""
    procs = min(procs or PROCS, max(1, len(units)))
    if procs <= 1 or os.environ.get('VERIF_INLINE'):
        _worker_init()
        out = [_call((fn, u)) for u in units]
    else:
        ctx = multiprocessing.get_context('fork')
        with ctx.Pool(procs, initializer=_worker_init) as pool:
            out = pool.map(_call, [(fn, u) for u in units], chunksize)
            pool.map(_cleanup_worker, range(procs * 4))
    results = []
    for kind, val in out:
        if kind == 'err':
            sys.stderr.write(val)
            sys.stderr.write('INTERNAL ERROR in work unit\n')
            sys.exit(3)
        results.append(val)
    return results


# ------------------------------------------------------------ reporting ---

class Report:
    """Aggregated result of one check run."""

    def __init__(self, prop, tier, seed, technique):
        self.prop = prop
        self.tier = tier
        self.seed = seed
        self.technique = technique
        self.t0 = time.perf_counter()
        self.states = 0
        self.transitions = 0
        self.executions = 0
        self.samples = []
        self.violations = []     # dicts: signature, message, replay
        self.outcomes = {}       # name -> count (vacuity guard)
        self.bounds = {}
        self.caps = []
        self.notes = []
        self.exhaustive = True
        self.assumptions = []
        self.parts = {}

    def merge(self, part, name=None):
        """part: dict produced by an engine work unit."""
        self.states += part.get('states', 0)
        self.transitions += part.get('transitions', 0)
        self.executions += part.get('executions', 0)
        for v in part.get('violations', []):
            self.violations.append(v)
        for k, n in part.get('outcomes', {}).items():
            self.outcomes[k] = self.outcomes.get(k, 0) + n
        for s in part.get('samples', []):
            if len(self.samples) < 12:
                self.samples.append(s)
        for c in part.get('caps', []):
            self.caps.append(c)
            self.exhaustive = False
        if name is not None:
            slot = self.parts.setdefault(name, {
                'units': 0, 'states': 0, 'transitions': 0, 'executions': 0,
                'fixpoints': 0})
            slot['units'] += 1
            for k in ('states', 'transitions', 'executions'):
                slot[k] += part.get(k, 0)
            if part.get('fixpoint'):
                slot['fixpoints'] += 1


def load_known():
    path = os.path.join(VERIF, 'known_findings.json')
    if not os.path.exists(path) or os.environ.get('VERIF_REPLAY_ALL'):
        return []     # (replay: listed findings are reproduced like any other)
    with open(path) as f:
        return json.load(f).get('findings', [])


def matches(entry, violation):
    """A known finding matches when every field of its ``match`` dict equals
    the violation's signature field (lists = any-of)."""
    sig = violation.get('signature', {})
    for k, want in entry.get('match', {}).items():
        have = sig.get(k)
        if isinstance(want, list):
            if have not in want:
                return False
        elif have != want:
            return False
    return True


def jsonable(x):
    if isinstance(x, dict):
        return {str(k): jsonable(v) for k, v in x.items()}
    if isinstance(x, (list, tuple)):
        return [jsonable(v) for v in x]
    if isinstance(x, (set, frozenset)):
        return sorted((jsonable(v) for v in x), key=repr)
    if isinstance(x, bytes):
        return {'bytes': x[:64].decode('latin-1'), 'len': len(x)}
    if isinstance(x, float) and (x != x or x in (float('inf'), float('-inf'))):
        return repr(x)
    if isinstance(x, (str, int, float, bool)) or x is None:
        if isinstance(x, str) and len(x) > 200:
            return x[:64] + '...(%d chars)' % len(x)
        return x
    return repr(x)


def enc(x):
    """Reversible JSON encoding of histories (tuples -> lists)."""
    if isinstance(x, dict):
        return {'$dict': [[enc(k), enc(v)] for k, v in x.items()]}
    if isinstance(x, (list, tuple)):
        return [enc(v) for v in x]
    if isinstance(x, bytes):
        return {'$bytes': x.decode('latin-1')}
    if isinstance(x, float) and (x != x or x in (float('inf'), float('-inf'))):
        return {'$float': repr(x)}
    if isinstance(x, (str, int, float, bool)) or x is None:
        return x
    return {'$repr': repr(x)}


def dec(x):
    if isinstance(x, dict):
        if '$bytes' in x:
            return x['$bytes'].encode('latin-1')
        if '$float' in x:
            return float(x['$float'])
        if '$dict' in x:
            return {dec(k): dec(v) for k, v in x['$dict']}
        return x
    if isinstance(x, list):
        return tuple(dec(v) for v in x)
    return x


def finish(report, level='model_checking', extra=None):
    """Write evidence + replays, print lines, return exit code."""
    prop = report.prop
    known = [e for e in load_known()
             if e.get('property') == prop and e.get('status') == 'known']
    fresh, seen_known = [], {}
    for v in report.violations:
        hit = None
        for e in known:
            if matches(e, v):
                hit = e
                break
        if hit is None:
            fresh.append(v)
        else:
            seen_known.setdefault(hit['id'], [hit, 0])[1] += 1
    for kid, (e, n) in sorted(seen_known.items()):
        print('KNOWN-FINDING: property=%s %s (%d witnesses this run)'
              % (prop, e['summary'], n))
    out_root = os.environ.get('VERIF_OUT', VERIF)
    rdir = os.path.join(out_root, 'replays', prop)
    emitted = {}
    for v in fresh:
        key = json.dumps(jsonable(v.get('signature', {})), sort_keys=True)
        if key in emitted:
            emitted[key]['count'] += 1
            continue
        os.makedirs(rdir, exist_ok=True)
        body = {'property': prop, 'tier': report.tier,
                'signature': jsonable(v.get('signature')),
                'message': jsonable(v.get('message')),
                'replay': enc(v.get('replay'))}
        digest = hashlib.sha1(
            json.dumps(body, sort_keys=True).encode()).hexdigest()[:12]
        path = os.path.join(rdir, digest + '.json')
        with open(path, 'w') as f:
            json.dump(body, f, indent=1, sort_keys=True)
        script = (v.get('replay') or {}).get('script')
        if script:
            # plain script that replays the history with diskcache only
            with open(path[:-5] + '.py', 'w') as f:
                f.write('# %s\n%s\n' % (str(v.get('message'))[:300]
                                         .replace('\n', ' '), script))
        emitted[key] = {'path': path, 'count': 1, 'message': v.get('message')}
    for n, (key, info) in enumerate(emitted.items()):
        print('VIOLATION property=%s replay=%s' % (prop, info['path']))
        if n < 12:
            print('  (%d witnesses) %s' % (info['count'],
                                         str(info['message'])[:600]))
    wall = time.perf_counter() - report.t0
    coverage = {
        'states': report.states,
        'transitions': report.transitions,
        'traces_validated_against_impl': report.executions,
        'samples': jsonable(report.samples[:12]) or ['(none)'],
        'exhaustive': bool(report.exhaustive and not report.caps),
        'bounds': jsonable(report.bounds),
        'caps_hit': jsonable(report.caps),
        'distinct_outcomes': len(report.outcomes),
        'outcomes': jsonable(dict(sorted(
            report.outcomes.items(), key=lambda kv: -kv[1])[:40])),
        'parts': jsonable(report.parts),
        'technique': report.technique,
        'known_findings_seen': sorted(seen_known),
        'notes': report.notes,
    }
    if extra:
        coverage.update(jsonable(extra))
    evidence = {
        'property_id': prop,
        'tier': report.tier,
        'seed': report.seed,
        'level': level,
        'coverage': coverage,
        'assumptions': report.assumptions,
        'wall_s': round(wall, 2),
        'violations': len(fresh),
    }
    os.makedirs(os.path.join(out_root, 'evidence'), exist_ok=True)
    with open(os.path.join(out_root, 'evidence', prop + '.json'), 'w') as f:
        json.dump(evidence, f, indent=1, sort_keys=True)
    print('%s %s: states=%d transitions=%d executions=%d outcomes=%d '
          'violations=%d known=%d wall=%.1fs%s'
          % (prop, report.tier, report.states, report.transitions,
             report.executions, len(report.outcomes), len(fresh),
             len(seen_known), wall,
             ' CAPS=%r' % report.caps if report.caps else ''))
    if report.states < 1 or report.transitions < 1:
        sys.stderr.write('INTERNAL ERROR: vacuous run\n')
        return 3
    return 1 if fresh else 0


def shuffled(seq, seed, salt=''):
    seq = list(seq)
    random.Random('%s/%s' % (seed, salt)).shuffle(seq)
    return seq
