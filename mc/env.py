"""Substrate: owns every source of nondeterminism the library sees.

Installed *before* ``diskcache`` is imported.  Patches stdlib entry points
(not names inside diskcache), so a change in how the library spells a call is
still intercepted:

* ``time.time``  -> virtual clock ``ENV.now``
* ``time.sleep`` -> ``ENV.hook.sleep`` when called from library code
* ``os.urandom`` -> deterministic per-client counter when called from
  ``diskcache.*`` (value file names)
* ``sqlite3.connect`` -> ``Conn`` subclass; ``execute`` is an event
* ``builtins.open`` / ``io.open`` / ``os.remove|unlink|mkdir|rmdir|rename|
  replace`` on paths below ``ENV.root`` are events; files opened for writing
  are wrapped so that every ``write`` and ``close`` is an event too.

An *event* calls ``ENV.hook.before(kind, info)`` (may raise to inject a fault,
may block to hand the baton to another client, may kill the process) and
``ENV.hook.after(kind, info)``.  With ``ENV.hook is None`` everything passes
straight through (plus an event log used by the unowned-side-effect audit).
"""
import builtins
import io
import os
import sqlite3
import sys
import threading
import time

REPO = os.environ.get('VERIF_REPO', '/repo')

real_time = time.time
real_sleep = time.sleep
real_urandom = os.urandom
import random as _random
real_random = _random.random
real_connect = sqlite3.connect
real_open = builtins.open
real_os = {
    name: getattr(os, name)
    for name in ('remove', 'unlink', 'mkdir', 'rmdir', 'rename', 'replace')
}

T0 = 1000.0  # virtual epoch; integer-valued floats keep arithmetic exact


class SpinDetected(BaseException):
    """Library code went to sleep although no other client can wake it."""


class Env:
    def __init__(self):
        self.active = False
        self.now = T0
        self.root = None          # absolute scratch prefix owned by the run
        self.hook = None          # engine-specific hook object
        self.names = {}           # client id -> counter for value-file names
        self.tls = threading.local()
        self.oplog = None         # list of (kind, relpath) when auditing
        self.busy_timeout = 0.0   # sqlite busy timeout forced on connections
        self.sleeps = 0
        self.random_value = None

    # -- clients ---------------------------------------------------------
    def client(self):
        return getattr(self.tls, 'client', 0)

    def set_client(self, cid):
        self.tls.client = cid

    def reset(self, root, now=T0):
        self.root = root
        self.now = now
        self.names = {}
        self.hook = None
        self.oplog = None
        self.sleeps = 0
        self.random_value = None

    def owned(self, path):
        root = self.root
        if root is None or not self.active:
            return False
        if isinstance(path, bytes):
            try:
                path = path.decode()
            except UnicodeDecodeError:
                return False
        if not isinstance(path, str):
            try:
                path = os.fspath(path)
            except TypeError:
                return False
            if not isinstance(path, str):
                return False
        return path.startswith(root)

    def rel(self, path):
        return os.fspath(path)[len(self.root):].lstrip('/')


ENV = Env()


def _from_library(depth=2):
    try:
        name = sys._getframe(depth).f_globals.get('__name__', '')
    except ValueError:
        return False
    return name.startswith('diskcache')


# ---------------------------------------------------------------- time ---

def v_time():
    if ENV.active:
        return ENV.now
    return real_time()


def v_sleep(seconds):
    if ENV.active and (_from_library() or ENV.client()):
        ENV.sleeps += 1
        hook = ENV.hook
        if hook is not None and hasattr(hook, 'sleep'):
            return hook.sleep(seconds)
        raise SpinDetected('time.sleep(%r) with nobody to wait for' % seconds)
    return real_sleep(seconds)


# ------------------------------------------------------------- urandom ---

def v_urandom(n):
    if ENV.active and n == 16 and _from_library():
        cid = ENV.client()
        count = ENV.names.get(cid, 0)
        ENV.names[cid] = count + 1
        # Two sub-directories below one shared top directory, shared by all
        # clients: exercises makedirs/removedirs interference.
        sub = b'\xbb' if count % 2 == 0 else b'\xcc'
        return b'\xaa' + sub + bytes([cid & 0xFF]) + count.to_bytes(13, 'big')
    return real_urandom(n)


def v_random():
    if ENV.active and ENV.random_value is not None and _from_library():
        return ENV.random_value
    return real_random()


# -------------------------------------------------------------- sqlite ---

def _event(kind, info, thunk):
    hook = ENV.hook
    if hook is None:
        if ENV.oplog is not None and kind != 'sql':
            ENV.oplog.append((kind, info))
        return thunk()
    hook.before(kind, info)
    try:
        result = thunk()
    except BaseException as exc:
        hook.after(kind, info, exc)
        raise
    hook.after(kind, info, None)
    if ENV.oplog is not None and kind != 'sql':
        ENV.oplog.append((kind, info))
    return result


class Conn(sqlite3.Connection):
    """Connection whose statements are events (library connections only)."""

    def execute(self, sql, *args):
        hook = ENV.hook
        if hook is None:
            return sqlite3.Connection.execute(self, sql, *args)
        run = getattr(hook, 'run_sql', None)
        if run is not None:
            return run(self, sql, args)
        return _event(
            'sql',
            (sql, args[0] if args else ()),
            lambda: sqlite3.Connection.execute(self, sql, *args),
        )

    def close(self):
        hook = ENV.hook
        if hook is not None and hasattr(hook, 'closing'):
            hook.closing(self)
        return sqlite3.Connection.close(self)


def v_connect(database, *args, **kwargs):
    if ENV.owned(database):
        kwargs['timeout'] = ENV.busy_timeout
        kwargs['factory'] = Conn
        con = real_connect(database, *args, **kwargs)
        hook = ENV.hook
        if hook is not None and hasattr(hook, 'connected'):
            hook.connected(con)
        return con
    return real_connect(database, *args, **kwargs)


# --------------------------------------------------------- file system ---

class WFile:
    """Proxy around a file opened for writing: write/close are events and
    every write reaches the file system at once (so partial files are
    observable by other clients and by kill points)."""

    def __init__(self, raw, rel):
        self._raw = raw
        self._rel = rel

    def write(self, data):
        def thunk():
            n = self._raw.write(data)
            self._raw.flush()
            return n
        return _event('write', self._rel, thunk)

    def close(self):
        if self._raw.closed:
            return None
        return _event('close', self._rel, self._raw.close)

    def __enter__(self):
        return self

    def __exit__(self, *exc):
        self.close()
        return False

    def __getattr__(self, name):
        return getattr(self._raw, name)

    def __iter__(self):
        return iter(self._raw)


def v_open(file, mode='r', *args, **kwargs):
    if isinstance(file, (str, bytes, os.PathLike)) and ENV.owned(file):
        rel = ENV.rel(file)
        if '/cache.db' in '/' + rel:
            return real_open(file, mode, *args, **kwargs)
        writing = any(c in mode for c in 'wxa+')
        kind = 'create' if writing else 'open'
        raw = _event(kind, rel, lambda: real_open(file, mode, *args, **kwargs))
        if writing:
            return WFile(raw, rel)
        return raw
    return real_open(file, mode, *args, **kwargs)


def _fs_shim(name):
    real = real_os[name]
    kind = {'unlink': 'remove'}.get(name, name)

    def shim(path, *args, **kwargs):
        if not kwargs and ENV.owned(path):
            return _event(kind, ENV.rel(path), lambda: real(path, *args))
        return real(path, *args, **kwargs)

    shim.__name__ = name
    return shim


_installed = False


def install():
    """Patch the stdlib seams.  Idempotent.  Call before importing diskcache."""
    global _installed
    if _installed:
        return
    _installed = True
    assert 'diskcache' not in sys.modules, 'install() must precede import'
    time.time = v_time
    time.sleep = v_sleep
    os.urandom = v_urandom
    _random.random = v_random
    sqlite3.connect = v_connect
    builtins.open = v_open
    io.open = v_open
    for name in real_os:
        setattr(os, name, _fs_shim(name))
    if REPO not in sys.path:
        sys.path.insert(0, REPO)
    ENV.active = True


class ThreadingProxy:
    """Stands in for the ``threading`` module inside diskcache's namespaces:
    identical, except that a scheduler client reports its logical id (thread
    identities then repeat across executions, which the state cache needs)
    and that threads started by the library can be adopted by a scheduler."""

    def __getattr__(self, name):
        return getattr(threading, name)

    @staticmethod
    def get_ident():
        cid = ENV.client()
        return cid if cid else threading.get_ident()

    @staticmethod
    def Thread(*args, **kwargs):
        hook = ENV.hook
        if hook is not None and hasattr(hook, 'spawn'):
            return hook.spawn(*args, **kwargs)
        return threading.Thread(*args, **kwargs)


class SharedAttr:
    """Data descriptor installed on Cache for the one attribute through
    which threads sharing a Cache object communicate in Python memory
    (``_txn_id``): every read is reported to the engine so that it becomes
    part of the reading client's observation log (state-cache soundness)."""

    def __init__(self, name):
        self.name = name
        self.slot = '_verif_' + name

    def __get__(self, obj, cls=None):
        if obj is None:
            return self
        hook = ENV.hook
        if hook is not None:
            access = getattr(hook, 'shared_access', None)
            if access is not None:
                access('read', self.name)      # may be a scheduling point
        value = obj.__dict__.get(self.slot)
        if hook is not None:
            report = getattr(hook, 'shared_read', None)
            if report is not None:
                report(self.name, value)
        return value

    def __set__(self, obj, value):
        hook = ENV.hook
        if hook is not None:
            access = getattr(hook, 'shared_access', None)
            if access is not None:
                access('write', self.name)
        obj.__dict__[self.slot] = value
        if hook is not None:
            report = getattr(hook, 'shared_write', None)
            if report is not None:
                report(self.name, value)


def load():
    """install() + import the library from the working tree."""
    install()
    import diskcache  # noqa
    path = os.path.dirname(os.path.abspath(diskcache.__file__))
    assert path == os.path.join(REPO, 'diskcache'), path
    diskcache.core.Cache._txn_id = SharedAttr('_txn_id')
    proxy = ThreadingProxy()
    for mod in list(sys.modules.values()):
        name = getattr(mod, '__name__', '')
        if name.startswith('diskcache') and \
                getattr(mod, 'threading', None) is threading:
            mod.threading = proxy
    return diskcache
