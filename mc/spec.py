"""Reference models, written from the documented API (boring on purpose).

SpecCache is a dictionary whose items carry an expiry time and a tag, plus
the queue view used by push/pull/peek.  It is a *relation* where the library
has latitude (lazy removal of expired items, size-based eviction): those
removals are observed by the engine, checked for admissibility and then
applied with ``forget``.
"""
import pickle
import pickletools
import re
from collections import OrderedDict

INT64_MIN = -(2 ** 63)
INT64_MAX = 2 ** 63 - 1


class Raises:
    """Normalised exception outcome (class name only)."""

    def __init__(self, name):
        self.name = name

    def __eq__(self, other):
        return isinstance(other, Raises) and other.name == self.name

    def __hash__(self):
        return hash(('Raises', self.name))

    def __repr__(self):
        return 'Raises(%s)' % self.name


def structure(obj):
    """Identity of a composite key: type and structure."""
    t = type(obj)
    if t in (tuple, list):
        return (t.__name__, tuple(structure(x) for x in obj))
    if t is frozenset:
        return (t.__name__, frozenset(structure(x) for x in obj))
    if t is float:
        return (t.__name__, repr(obj))
    return (t.__name__, obj)


def norm_key(key):
    """Documented key identity: text, bytes and (int64 / float) numbers
    compare as in Python; every other key by type and structure."""
    t = type(key)
    if t is str:
        return ('s', key)
    if t is bytes:
        return ('b', key)
    if (t is int and INT64_MIN <= key <= INT64_MAX) or t is float:
        return ('n', key)
    return ('o', structure(key))


def sort_key(key, protocol=pickle.HIGHEST_PROTOCOL):
    """SQLite ORDER BY key, raw: numbers < text (UTF-8 bytes) < blobs."""
    kind = norm_key(key)[0]
    if kind == 'n':
        return (1, key, 0, 0)
    if kind == 's':
        return (2, key.encode('utf-8', 'surrogatepass'), 0, 0)
    if kind == 'b':
        return (3, key, 1, 0)
    data = pickletools.optimize(pickle.dumps(key, protocol=protocol))
    return (3, data, 0, 0)


def same(a, b):
    """Type-and-value equality (NaN aware, -0.0 aware, recursive)."""
    if type(a) is not type(b):
        return False
    if isinstance(a, float):
        return repr(a) == repr(b)
    if isinstance(a, (tuple, list)):
        return len(a) == len(b) and all(same(x, y) for x, y in zip(a, b))
    if isinstance(a, dict):
        return (
            len(a) == len(b)
            and list(map(type, a)) == list(map(type, b))
            and all(k in b and same(v, b[k]) for k, v in a.items())
        )
    return a == b


class Item:
    __slots__ = ('key', 'value', 'expire', 'tag', 'stored', 'used', 'reads',
                 'handle')

    def __init__(self, key, value, expire, tag, stamp, handle=False):
        self.key = key
        self.value = value
        self.expire = expire
        self.tag = tag
        self.stored = stamp   # (clock, sequence) of last store
        self.used = stamp     # (clock, sequence) of last store or read
        self.reads = 0        # reads since last store
        self.handle = handle  # stored from a binary stream (read=True)

    def row(self):
        return (self.key, self.value, self.expire, self.tag)


QUEUE_RE = re.compile(r'^(.*)-(\d{15})$', re.S)


class SpecCache:
    def __init__(self, policy='least-recently-stored', statistics=False,
                 cull_limit=10, min_file_size=2 ** 15, clock=None,
                 pickle_protocol=pickle.HIGHEST_PROTOCOL):
        self.items = OrderedDict()     # norm_key -> Item, insertion order
        self.policy = policy
        self.statistics = bool(statistics)
        self.cull_limit = cull_limit
        self.min_file_size = min_file_size
        self.pickle_protocol = pickle_protocol
        self.hits = 0
        self.misses = 0
        self.clock = clock             # callable returning now
        self.seq = 0
        self.culls = False             # last op was a write that may cull

    # -- helpers -----------------------------------------------------------
    def now(self):
        return self.clock()

    def stamp(self):
        return self.now()

    def live(self, item):
        return item.expire is None or item.expire > self.now()

    def find(self, key):
        item = self.items.get(norm_key(key))
        if item is not None and self.live(item):
            return item
        return None

    def is_handle(self, item):
        value = item.value
        return item.handle or (
            type(value) is bytes and len(value) >= self.min_file_size
        )

    def _store(self, key, value, expire, tag, handle=False):
        nk = norm_key(key)
        expire_time = None if expire is None else self.now() + expire
        old = self.items.get(nk)
        item = Item(key if old is None else old.key, value, expire_time, tag,
                    self.stamp(), handle)
        self.items[nk] = item   # replacement keeps position
        self.culls = True

    def forget(self, nkeys):
        for nk in nkeys:
            del self.items[nk]

    def expired_keys(self, strict=True):
        now = self.now()
        if strict:
            return {nk for nk, it in self.items.items()
                    if it.expire is not None and it.expire < now}
        return {nk for nk, it in self.items.items()
                if it.expire is not None and it.expire <= now}

    def rows(self):
        return [it.row() for it in self.items.values()]

    def _count(self, hit):
        if self.statistics:
            if hit:
                self.hits += 1
            else:
                self.misses += 1

    def _read(self, item):
        item.used = self.stamp()
        item.reads += 1

    @staticmethod
    def _shape(value, item, default, expire_time, tag):
        if item is None:
            if expire_time and tag:
                return (default, None, None)
            if expire_time or tag:
                return (default, None)
            return default
        if expire_time and tag:
            return (value, item.expire, item.tag)
        if expire_time:
            return (value, item.expire)
        if tag:
            return (value, item.tag)
        return value

    # -- mapping API -------------------------------------------------------
    def set(self, key, value, expire=None, tag=None, handle=False):
        self._store(key, value, expire, tag, handle)
        return True

    def add(self, key, value, expire=None, tag=None, handle=False):
        if self.find(key) is not None:
            return False
        self._store(key, value, expire, tag, handle)
        return True

    def get(self, key, default=None, read=False, expire_time=False,
            tag=False):
        item = self.find(key)
        self._count(item is not None)
        if item is None:
            return self._shape(None, None, default, expire_time, tag)
        self._read(item)
        value = item.value
        if read and self.is_handle(item):
            value = ('handle', value)
        return self._shape(value, item, default, expire_time, tag)

    def getitem(self, key):
        item = self.find(key)
        self._count(item is not None)
        if item is None:
            return Raises('KeyError')
        self._read(item)
        return item.value

    def read(self, key):
        item = self.find(key)
        self._count(item is not None)
        if item is None:
            return Raises('KeyError')
        self._read(item)
        if self.is_handle(item):
            return ('handle', item.value)
        return item.value

    def contains(self, key):
        return self.find(key) is not None

    def touch(self, key, expire=None):
        item = self.find(key)
        if item is None:
            return False
        item.expire = None if expire is None else self.now() + expire
        return True

    def incr(self, key, delta=1, default=0):
        item = self.find(key)
        if item is None:
            if default is None:
                return Raises('KeyError')
            value = default + delta
            self._store(key, value, None, None)
            return value
        if type(item.value) not in (int, float):
            return Raises('TypeError')   # outside incr's documented domain
        item.value = item.value + delta
        item.stored = self.stamp()
        item.used = item.stored
        item.reads += 1
        return item.value

    def decr(self, key, delta=1, default=0):
        return self.incr(key, -delta, default)

    def pop(self, key, default=None, expire_time=False, tag=False):
        item = self.find(key)
        if item is None:
            return self._shape(None, None, default, expire_time, tag)
        del self.items[norm_key(key)]
        return self._shape(item.value, item, default, expire_time, tag)

    def delete(self, key):
        item = self.find(key)
        if item is None:
            return False
        del self.items[norm_key(key)]
        return True

    def delitem(self, key):
        if not self.delete(key):
            return Raises('KeyError')
        return None

    def clear(self):
        n = len(self.items)
        self.items.clear()
        return n

    def evict(self, tag):
        gone = [nk for nk, it in self.items.items()
                if tag is not None and it.tag == tag]
        self.forget(gone)
        return len(gone)

    def length(self):
        return len(self.items)

    def keys(self):
        return [it.key for it in self.items.values()]

    def rkeys(self):
        return self.keys()[::-1]

    def sorted_keys(self, reverse=False):
        keys = sorted(
            self.keys(), key=lambda k: sort_key(k, self.pickle_protocol),
            reverse=reverse,
        )
        return keys

    def stats(self, enable=True, reset=False):
        result = (self.hits, self.misses)
        if reset:
            self.hits = self.misses = 0
        self.statistics = bool(enable)
        return result

    def peekitem(self, last=True, expire_time=False, tag=False):
        # expired items at the probed end are dropped on the way
        while self.items:
            nk = next(reversed(self.items)) if last else next(iter(self.items))
            item = self.items[nk]
            if not self.live(item):
                del self.items[nk]
                continue
            pair = (item.key, item.value)
            if expire_time and tag:
                return (pair, item.expire, item.tag)
            if expire_time:
                return (pair, item.expire)
            if tag:
                return (pair, item.tag)
            return pair
        return Raises('KeyError')

    # -- queue API -----------------------------------------------------------
    def queue(self, prefix):
        """Members of the queue ``prefix`` as sorted (number, norm_key)."""
        out = []
        for nk, it in self.items.items():
            key = it.key
            if prefix is None:
                if nk[0] == 'n' and type(key) is int and 0 < key < 10 ** 15 - 1:
                    out.append((key, nk))
            elif nk[0] == 's':
                m = QUEUE_RE.match(key)
                if m and m.group(1) == prefix:
                    num = int(m.group(2))
                    if 0 < num < 10 ** 15 - 1:
                        out.append((num, nk))
        out.sort()
        return out

    def push(self, value, prefix=None, side='back', expire=None, tag=None,
             handle=False):
        q = self.queue(prefix)
        if not q:
            num = 500000000000000
        elif side == 'back':
            num = q[-1][0] + 1
        else:
            num = q[0][0] - 1
        key = num if prefix is None else '%s-%015d' % (prefix, num)
        self._store(key, value, expire, tag, handle)
        return key

    def _head(self, prefix, side, remove):
        while True:
            q = self.queue(prefix)
            if not q:
                return None
            num, nk = q[0] if side == 'front' else q[-1]
            item = self.items[nk]
            if not self.live(item):
                del self.items[nk]
                continue
            if remove:
                del self.items[nk]
            return item

    def pull(self, prefix=None, default=(None, None), side='front',
             expire_time=False, tag=False):
        item = self._head(prefix, side, True)
        if item is None:
            return self._shape(None, None, default, expire_time, tag)
        return self._shape((item.key, item.value), item, default,
                           expire_time, tag)

    def peek(self, prefix=None, default=(None, None), side='front',
             expire_time=False, tag=False):
        item = self._head(prefix, side, False)
        if item is None:
            return self._shape(None, None, default, expire_time, tag)
        return self._shape((item.key, item.value), item, default,
                           expire_time, tag)

    # -- eviction order (documented policies) --------------------------------
    def rank(self, item):
        """Smaller rank = evicted earlier under the configured policy."""
        if self.policy == 'least-recently-stored':
            return item.stored
        if self.policy == 'least-recently-used':
            return item.used
        if self.policy == 'least-frequently-used':
            return item.reads
        return None
