#!/bin/bash
# usage: tools/try_seeded.sh <seed-id> <prop> [<prop>...]   (VERIF_TIER=thorough for thorough)
# Applies seeded/<id>/patch.diff in a scratch worktree of /repo (never /repo
# itself), runs the checks against it with evidence/replays redirected, and
# removes the worktree.
sid=$1; shift
tier=${VERIF_TIER:-quick}
wt=/tmp/wt/try-$sid-$$
out=/dev/shm/verif-try-$$
cd /verif
git -C /repo worktree add -q "$wt" HEAD || exit 2
trap 'git -C /repo worktree remove --force "$wt" >/dev/null 2>&1; rm -rf "$out"' EXIT
git -C "$wt" apply /verif/seeded/$sid/patch.diff || exit 2
for p in "$@"; do
  o=$(VERIF_REPO=$wt VERIF_OUT=$out ./check $p $tier 2>&1); rc=$?
  echo "== $sid vs $p ($tier): exit=$rc $(echo "$o" | grep -c '^VIOLATION') violation line(s)"
  echo "$o" | grep -A1 '^VIOLATION' | head -6 | cut -c1-400
  [ $rc -ge 2 ] && echo "$o" | tail -15
done
