#!/bin/bash
# usage: tools/try_seeded.sh <seed-id> <prop> [<prop>...]   (quick tier; VERIF_TIER=thorough for thorough)
# Applies seeded/<id>/patch.diff to /repo, runs the checks, reverts.
sid=$1; shift
tier=${VERIF_TIER:-quick}
cd /verif
git -C /repo diff --quiet || { echo "/repo dirty"; exit 2; }
git -C /repo apply /verif/seeded/$sid/patch.diff || exit 2
for p in "$@"; do
  out=$(./check $p $tier 2>&1); rc=$?
  echo "== $sid vs $p ($tier): exit=$rc $(echo "$out" | grep -c '^VIOLATION') violation line(s)"
  echo "$out" | grep -A1 '^VIOLATION' | head -6 | cut -c1-400
  [ $rc -ge 2 ] && echo "$out" | tail -15
done
git -C /repo checkout -- .
