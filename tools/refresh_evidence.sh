#!/bin/bash
# Run every claimed check (quick) on the clean tree so that committed evidence
# comes from /repo itself, not from a run against a seeded mutant.
cd /verif
git -C /repo diff --quiet || { echo "/repo dirty"; exit 2; }
for p in $(python3 -c "import json;print(' '.join(c['property_id'] for c in json.load(open('MANIFEST.json'))['checks']))"); do
  if [ -n "$1" ] && ! echo " $* " | grep -q " $p "; then continue; fi
  out=$(./check $p ${VERIF_TIER:-quick} 2>&1); rc=$?
  echo "$p exit=$rc $(echo "$out" | tail -1 | cut -c1-160)"
done
