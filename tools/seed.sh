#!/bin/bash
# usage: tools/seed.sh <worktree> <k> <seed-id> <property> "<needs>"
# Confirms a sub-agent's mutant independently, then stores it under seeded/<seed-id>/.
set -u
wt=$1; k=$2; sid=$3; prop=$4; needs=$5
cd "$wt" || exit 2
git checkout -q -- diskcache
clean_rc=0; /venv/bin/python demo$k.py >$wt/seed_clean.log 2>&1 || clean_rc=$?
git apply patch$k.diff || { echo "patch does not apply"; exit 2; }
mut_rc=0; /venv/bin/python demo$k.py >$wt/seed_mut.log 2>&1 || mut_rc=$?
/venv/bin/python -m pytest -q -p no:cacheprovider --timeout=900 -n 4 >$wt/seed_tests.log 2>&1
summary=$(grep -E "passed|failed" $wt/seed_tests.log | tail -1)
if echo "$summary" | grep -q failed; then
  failed=$(grep ^FAILED $wt/seed_tests.log | sed 's/FAILED //; s/ - .*//' | tr '\n' ' ')
  /venv/bin/python -m pytest -q -p no:cacheprovider --timeout=900 $failed >$wt/seed_tests2.log 2>&1
  summary="$summary ; rerun alone: $(grep -E 'passed|failed' $wt/seed_tests2.log | tail -1)"
fi
git checkout -q -- diskcache
echo "clean demo rc=$clean_rc  mutant demo rc=$mut_rc  tests: $summary"
if echo "$summary" | grep -q passed && [ $clean_rc -eq 0 ] && [ $mut_rc -ne 0 ] && ! echo "$summary" | grep -q "rerun alone:.*failed" ; then
  d=/verif/seeded/$sid; mkdir -p $d
  cp patch$k.diff $d/patch.diff; cp demo$k.py $d/demo.py
  /venv/bin/python - "$d" "$prop" "$needs" "$summary" "$(tail -3 $wt/seed_mut.log | tr '\n' ' ')" <<'PY'
import json,sys
d,prop,needs,summary,out=sys.argv[1:6]
json.dump({'property':prop,'needs_to_manifest':needs,
 'confirmed':{'demo_on_clean_tree':'exit 0','demo_with_patch':'non-zero: '+out[-300:],'test_suite_with_patch':summary,
 'how':'tools/seed.sh in a scratch worktree of /repo HEAD: demo on clean tree, git apply patch, demo again, full pytest -n 8 (failures re-run alone)'},
 'detected_by':[]}, open(d+'/meta.json','w'), indent=1)
PY
  echo "KEPT $sid"
else
  echo "REJECTED $sid"
fi
