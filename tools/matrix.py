#!/usr/bin/env python3
"""Run every seeded mutant against the checks that should catch it, each in
its own scratch worktree of /repo (so /repo itself is never touched), and
record the outcome in seeded/<id>/meta.json and seeded/MATRIX.md."""
import concurrent.futures
import json
import os
import subprocess
import sys

VERIF = os.path.dirname(os.path.dirname(os.path.abspath(__file__)))
SEEDED = os.path.join(VERIF, 'seeded')
EXTRA = {   # additional checks expected to notice a mutant
    'C04-touch-outside-txn': ['C05'],
    'C08-delitem-lockfree': ['C05'],
    'C08-text-size': ['C03'],
    'C01-write-retry-truncates': ['C08'],
    'C03-incr-revive': ['C04'],
    'C04-expire-strict-page': ['C03'],
    'C11-pull-select-outside': ['C10'],
    'C13-pickle-redivides-size-limit': ['C18'],
    'C18-int-hash-and-mask': ['C13'],
    'C14-retry-removes-staged-file': ['C08'],
    'C15-rlock-pid-frozen': [],
    'C13-remove-gives-up-after-60s': ['C14'],
    'C15-hash-uses-python-hash': ['C13'],
    'C15-fanout-pickle-drops-shards': ['C18'],
    'C02-delitem-lookup-outside': ['C05'],
    'C10-push-culls-in-second-txn': ['C14'],
    'C20-pop-lookup-outside': ['C05'],
    'C04-pop-clock-before-lock': ['C05'],
    'C02-restore-only-default-settings': ['C18'],
    'C06-removes-not-cleared-after-rollback': ['C08'],
    'C11-writes-list-never-cleared': ['C06'],
    'C19-pop-select-outside': ['C05'],
    'C18-init-overwrites-metadata': ['C05'],
    'C08-remove-committed-any-txn': ['C06'],
    'C05-setdefault-no-readback': ['C12'],
    'C10-pull-clock-before-lock': ['C04'],
    'C07-cull-removes-before-commit': ['C08', 'C09'],
    'C12-reverse-iteration-pages-wrong-way': ['C03'],
    'C12-int-key-bit-length': ['C02'],
    'C20-fanout-pickle-drops-shard-count': ['C18', 'C13'],
    'C08-cull-deletes-more-than-collected': ['C09'],
    'C03-set-culls-only-on-insert': ['C09'],
    'C05-str-keys-builtin-hash': ['C13', 'C15'],
    'C05-transact-except-exception': ['C06'],
    'C13-mapping-set-del-lose-retry': ['C14'],
    'C18-deque-ctor-trims-via-setter': ['C11'],
    'C18-jsondisk-sorts-dict-keys': ['C02'],
    'C11-push-caches-last-key': ['C10'],
    'C01-shared-pickle-buffer': ['C05'],
    'C02-peekitem-raw-key-undecoded': ['C12'],
    'C04-get-retry-by-rowid-no-expiry': ['C05', 'C12'],
    'C15-removes-survive-rollback-rlock': ['C06'],
    'C19-writes-list-not-reset-on-commit': ['C06'],
    'C18-iter-single-cursor': ['C05'],
    'C14-timeout-clears-txn-owner': ['C06'],
    'C15-txn-owner-cleared-after-rollback': ['C06'],
    'C20-fanout-transact-depth-shared': ['C06'],
    'C13-reset-reload-first-shard-only': ['C18'],
    'C17-fanout-check-swallows-timeout': ['C14'],
    'C19-store-isinstance-value-types': ['C01'],
    'C06-remove-before-commit': ['C07', 'C12'],
    'C07-timeout-leaves-txn': ['C06', 'C14'],
    'C08-removes-survive-rollback': ['C06'],
    'C10-removes-survive-rollback': ['C06'],
    'C10-except-exception': ['C06'],
    'C11-except-exception': ['C06'],
    'C12-removes-not-cleared': ['C06'],
}


def one(sid, tier):
    meta = json.load(open(os.path.join(SEEDED, sid, 'meta.json')))
    props = [meta['property']] + EXTRA.get(sid, [])
    wt = '/tmp/wt/mx-%s' % sid
    out = '/dev/shm/verif-matrix/%s' % sid
    subprocess.run(['git', '-C', '/repo', 'worktree', 'remove', '--force', wt],
                   capture_output=True)
    subprocess.run(['git', '-C', '/repo', 'worktree', 'add', '-q', wt, 'HEAD'],
                   check=True, capture_output=True)
    res = {}
    try:
        r = subprocess.run(['git', '-C', wt, 'apply',
                            os.path.join(SEEDED, sid, 'patch.diff')],
                           capture_output=True, text=True)
        if r.returncode != 0:
            return sid, {'error': 'patch does not apply: ' + r.stderr[:200]}
        for p in props:
            env = dict(os.environ, VERIF_REPO=wt, VERIF_OUT=out,
                       VERIF_PROCS='4', PYTHONHASHSEED='0')
            try:
                r = subprocess.run([os.path.join(VERIF, 'check'), p, tier],
                                   env=env, capture_output=True, text=True,
                                   timeout=1500, start_new_session=True)
            except subprocess.TimeoutExpired:
                res[p] = {'exit': 124, 'violation_lines': 0,
                          'first': 'check did not finish in 1500 s'}
                continue
            lines = [l for l in r.stdout.splitlines()
                     if l.startswith('VIOLATION')]
            first = ''
            for i, l in enumerate(r.stdout.splitlines()):
                if l.startswith('VIOLATION'):
                    nxt = r.stdout.splitlines()[i + 1:i + 2]
                    first = (nxt[0].strip() if nxt else '')[:160]
                    break
            res[p] = {'exit': r.returncode, 'violation_lines': len(lines),
                      'first': first}
    finally:
        subprocess.run(['git', '-C', '/repo', 'worktree', 'remove', '--force',
                        wt], capture_output=True)
    return sid, res


def write_table(tier):
    """MATRIX.md from every seeded/<id>/meta.json (all rounds)."""
    rows = []
    for sid in sorted(os.listdir(SEEDED)):
        if sid.startswith('_'):
            continue
        mp = os.path.join(SEEDED, sid, 'meta.json')
        if not os.path.exists(mp):
            continue
        meta = json.load(open(mp))
        rows.append((sid, meta['property'], meta.get('runs', {}).get(tier),
                     meta.get('detected_by', [])))
    with open(os.path.join(SEEDED, 'MATRIX.md'), 'w') as f:
        f.write('# Seeded mutants vs checks (%s tier)\n\n' % tier)
        f.write('%d mutants; check -> exit code (number of VIOLATION '
                'lines)\n\n' % len(rows))
        f.write('| mutant | property | check -> exit (violation lines) | '
                'first witness |\n|---|---|---|---|\n')
        for sid, prop, res, det in rows:
            if not res:
                f.write('| %s | %s | not run | |\n' % (sid, prop))
                continue
            if 'error' in res:
                f.write('| %s | %s | %s | |\n' % (sid, prop, res['error']))
                continue
            cell = ', '.join('%s -> %d (%d)' % (p, r['exit'],
                                                 r['violation_lines'])
                             for p, r in res.items())
            first = next((r['first'] for r in res.values() if r['first']), '')
            f.write('| %s | %s | %s | %s |\n' % (
                sid, prop, cell, first.replace('|', '/')))


def main():
    tier = os.environ.get('VERIF_TIER', 'quick')
    ids = sorted(d for d in os.listdir(SEEDED)
                 if os.path.isdir(os.path.join(SEEDED, d))
                 and not d.startswith('_'))
    if len(sys.argv) > 1:
        ids = [i for i in ids if any(a in i for a in sys.argv[1:])]
    rows = []
    with concurrent.futures.ThreadPoolExecutor(4) as ex:
        for sid, res in ex.map(lambda s: one(s, tier), ids):
            meta_p = os.path.join(SEEDED, sid, 'meta.json')
            meta = json.load(open(meta_p))
            meta.setdefault('runs', {})[tier] = res
            meta['detected_by'] = sorted(
                p for t in meta['runs'].values() for p, r in t.items()
                if isinstance(r, dict) and r.get('exit') == 1)
            json.dump(meta, open(meta_p, 'w'), indent=1)
            rows.append((sid, meta['property'], res))
            print(sid, {p: (r.get('exit') if isinstance(r, dict) else r)
                        for p, r in res.items()}, flush=True)
    write_table(tier)
    missed = [sid for sid, prop, res in rows
              if 'error' in res or not any(r.get('exit') == 1
                                           for r in res.values())]
    print('MISSED:', missed)


if __name__ == '__main__':
    main()
