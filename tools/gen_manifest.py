#!/usr/bin/env python3
"""Regenerate MANIFEST.json from the table below and validate it."""
import json
import os

HERE = os.path.dirname(os.path.dirname(os.path.abspath(__file__)))

MC = 'model_checking'
TRUST = ('SQLite (locking, snapshot isolation, crash recovery) and the '
         'file system are the trusted base; ')

CHECKS = {
    'C01': dict(engine='GRID', tech='bounded-exhaustive enumeration of value '
                'x threshold x serializer x accessor on the implementation',
                text='Every value of a ~250-value alphabet per threshold '
                '(every length around disk_min_file_size per character '
                'class, pickles straddling the threshold byte by byte, '
                'streams in 1/2/short-read chunks, str/bytes subclasses) is '
                'stored and read back through every accessor for every '
                'threshold, pickle protocol and JSONDisk level; type-and-value '
                'equality or rejection by exception is required; in addition '
                'an OS error is injected at every file event of storing a '
                'file-backed value (rejected with the key unchanged, or '
                'intact); numbers written by incr/decr (64-bit edges, '
                'int/float mixes) read back exactly as returned.',
                note='values, lengths and types outside the alphabet are not '
                'covered; custom Disk subclasses out of scope', ref='§3 C01'),
    'C02': dict(engine='GRID', tech='bounded-exhaustive enumeration of all '
                'ordered key pairs x serializer on the implementation',
                text='All ordered pairs of a ~75-key alphabet (native/pickled '
                'boundaries, bytes equal to each pickled key, numeric ties) '
                'are stored on an empty cache per protocol and for JSONDisk; '
                'entries coincide iff the documented rule says the keys are '
                'equal; insertion-order and sorted iteration return the '
                'stored keys with their types, incl. twin rows at every page '
                'boundary; keys handed back by reversed() and peekitem '
                'likewise.',
                note='NaN and user-defined key classes excluded; JSONDisk '
                'identity = JSON text', ref='§3 C02'),
    'C03': dict(engine='SEQ', tech='explicit-state BFS of the implementation '
                'against a reference model (bounded exhaustive)',
                text='Every history over the slice alphabets up to the stated '
                'depth, from every reachable state, is executed on the real '
                'Cache; each call\'s result, the resulting directory contents, '
                'statistics and bookkeeping are compared with a reference '
                'dictionary; every population size 0..210 for the paged '
                'operations.',
                note='bounded alphabets and depth; virtual clock constant '
                'inside one call', ref='§3 C03'),
    'C05': dict(engine='SCHED', tech='stateless exploration of all thread '
                'interleavings under a controlled scheduler + brute-force '
                'linearizability check',
                text='For every pair of single operations (plus failing-op '
                'prefixes; 2x2 and 3-client programs in thorough) every '
                'interleaving of their SQL statements and file operations is '
                'executed on real client threads; each complete execution '
                'must be linearizable w.r.t. the reference dictionary with '
                'the one tolerated relaxation, and end with consistent '
                'bookkeeping; this includes lookups against delete+insert of '
                'another key (row-id reuse) and a second handle being opened '
                '(every statement of the constructor is a scheduling point) '
                'while another client writes, and an iteration suspended '
                'between two items while another client writes (the library '
                'runs on real SQLite cursors, so a half-read statement keeps '
                'its snapshot).',
                note='scheduling points at SQL statements and file-system '
                'calls; Python code between them runs atomically; processes '
                'represented by clients with separate Cache objects',
                ref='§3 C05'),
}

CHECKS.update({
    'C04': dict(engine='SEQ', tech='explicit-state BFS of the implementation '
                'under a virtual clock against a reference model + exhaustive '
                'population sweep',
                text='Every history up to the stated depth over expiry-centred '
                'alphabets (ttl None/0/1/2/-1/+-1e10, set/add/touch/incr/get/'
                'contains/pop/delete/peekitem/push/pull/peek/expire/cull, '
                'every cull_limit) is executed on the real Cache under a '
                'virtual clock and compared with the reference; expire(), '
                'cull() and lazily culling writes are checked on every '
                'population 0..210 of expired items (shared, split and '
                'distinct expiry times); 32 (item, operation) cases x 5 '
                'lock waits during which the clock moves (FAULT): the call '
                'answers as the reference does when it returns.',
                note='clock constant inside one call', ref='§3 C04'),
    'C09': dict(engine='SEQ', tech='explicit-state BFS of the implementation '
                'at its size limit against a relational reference of '
                'admissible victims',
                text='From four start states (empty, near the limit with an '
                'expired item, early counter, uneven reads) every history up '
                'to the stated depth of writes/reads/incr/touch/cull over '
                'file-backed values of two sizes is executed for each policy '
                'x cull_limit in {0,1,2,10}; victims must be admissible '
                '(only at the limit, at most cull_limit, expired first, no '
                'survivor strictly older under the policy, none under policy '
                'none) and cull() must end at or below the limit with the '
                'right count.',
                note='volume = pages + value files; when SQLite changes the '
                'page count in a step both decisions are admissible', ref='§3 C09'),
    'C10': dict(engine='SEQ+SCHED', tech='explicit-state BFS against '
                'per-prefix reference deques + stateless exploration of all '
                'producer/consumer interleavings with a linearizability '
                'oracle',
                text='Every push/pull/peek history up to the stated depth over '
                'both sides, prefixes None/a/ab/a-5/b, ordinary keys and '
                'expiring items is compared with reference deques; for '
                'producer/consumer/peeker programs every interleaving (2 '
                'clients) or every schedule within the preemption bound (3 '
                'clients) must be linearizable, which implies exactly-once '
                'delivery and per-producer order.',
                note='free-running processes replaced by exhaustive small '
                'programs', ref='§3 C10'),
    'C11': dict(engine='SEQ+SCHED', tech='explicit-state BFS differential '
                'against collections.deque + stateless exploration of '
                'producer/consumer interleavings',
                text='From 8 start states (maxlen None/0/1/2/3, incl. '
                'FanoutCache.deque and DjangoCache.deque) every history up to '
                'the stated depth over an ~85-operation alphabet (all '
                'indices -4..3, rotate -3..4, comparisons, reopen, copy, '
                'pickle, size_limit=0) must give the same result, exception '
                'class, contents and maxlen as collections.deque; concurrent '
                'append/pop programs must be linearizable; iterables that '
                'raise after yielding items keep what was consumed.',
                note='maxlen is not persisted: reopen passes the same maxlen',
                ref='§3 C11'),
    'C12': dict(engine='SEQ+SCHED', tech='explicit-state BFS differential '
                'against OrderedDict + stateless exploration of all '
                'interleavings with a strict linearizability oracle',
                text='From 6 start states every history up to the stated '
                'depth over a ~60-operation mapping alphabet (native and '
                'composite keys, inline and file-backed values, views, '
                'equality, failing update, reopen, unpickle) must match '
                'OrderedDict; lookups/replacements (also two file-to-file '
                'replacements in a row and replacements inside a transaction '
                'block)/setdefault/popitem by 2-3 clients must be linearizable '
                'with no tolerated miss.',
                note='', ref='§3 C12'),
    'C15': dict(engine='SCHED', tech='stateless exploration of all '
                'interleavings of contender threads; invariant on an '
                'independent witness counter',
                text='For Lock, RLock (incl. nested and wrong-party release), '
                'BoundedSemaphore(1..2, 3 in thorough) and barrier on Cache '
                'and FanoutCache, with shared and own Cache objects, every '
                'interleaving of 2 contenders (and bounded schedules of 3-4) '
                'is executed; the number of holders recorded by the harness '
                'never exceeds the capacity, nobody deadlocks, releases of '
                'what is not held are refused; real processes: a forked child '
                '(inherited or own object) and separately started '
                'interpreters with other hash seeds (lock rebuilt from the '
                'directory or received by pickle) must wait while the parent '
                'holds the lock and acquire once it is free.',
                note='time.sleep in spin loops yields to the scheduler; spin '
                'loops are assumed stateless across iterations; processes '
                'represented by separate Cache objects', ref='§3 C15'),
    'C19': dict(engine='SEQ', tech='explicit-state BFS differential against '
                'Django\'s reference backend (LocMemCache) under one virtual '
                'clock',
                text='Every history up to the stated depth over a 50-operation '
                'BaseCache alphabet (keys x versions x timeout classes) is '
                'executed on DjangoCache and LocMemCache for several '
                'TIMEOUT/KEY_PREFIX/VERSION/SHARDS parameter sets; contract-'
                'defined return values and the visible state for every key '
                'and version must agree; 20 kinds of value through every '
                'writer and reader keep value and exact type.',
                note='return values the contract leaves open (set, clear, '
                'delete of an expired entry) are not compared', ref='§3 C19'),
    'C20': dict(engine='SCHED', tech='stateless exploration of all '
                'interleavings (virtual time for throttle) with '
                'linearizability / rate-window oracles',
                text='Averager: every interleaving of 2 clients (and bounded '
                'schedules of 3) doing add/get/pop must be linearizable '
                'against (total, count). Throttle: for 4 rates, 1-2 callers x '
                '2-3 calls, arrival offsets {0,1/2,1} and up to two '
                'spontaneous half ticks, every schedule is executed under a '
                'virtual clock; every window of grant instants respects '
                'count + rate x elapsed and every call is let through.',
                note='virtual time advances only when every caller sleeps '
                '(plus explicit ticks)', ref='§3 C20'),
})

CHECKS.update({
    'C06': dict(engine='GRID+FAULT+SCHED', tech='bounded-exhaustive '
                'enumeration of block bodies x raise points x injected '
                'failure positions + stateless exploration of all '
                'interleavings with blocks as composite operations',
                text='Every block body of length <= 2 (<= 3 thorough) over 11 '
                'elements (inline/file-backed writes, removals, queue '
                'operations, a nested block that raises and is caught) from '
                'three initial states is run with a raise after every prefix '
                'and a failure injected at every statement/file operation '
                'inside it, aborted by Exception and by BaseException, also '
                'after an earlier write of the same client timed out: rows '
                'and value files must be exactly as before and stay so after a '
                'later committed write; '
                'committed blocks match the reference; Deque/Index/'
                'FanoutCache.transact likewise; a block against a reader, a '
                'writer or another block (own and shared objects, Fanout '
                'pairs) is explored over all interleavings as one composite '
                'operation.',
                note='failing COMMIT not modelled; reads/writes of the shared '
                '_txn_id are scheduling points when the object is shared',
                ref='§3 C06'),
    'C07': dict(engine='CRASH', tech='exhaustive kill-point enumeration with '
                'real SIGKILL of a forked worker, recovery judged against the '
                'reference model of completed operations',
                text='For 39 workloads (every mutating Cache method over '
                'inline and file-backed values, bulk removals, transaction '
                'blocks, Deque and Index operations, the first open of a new '
                'directory) a forked worker is killed before every database '
                'statement and every file create/write/close/remove and '
                'directory create/remove; a handle opened before the kill and '
                'handles opened afterwards must see the old or the new state '
                '(bulk removals: anything between), read every present key, '
                'write at once, a recovered Deque/Index must also agree with '
                'the reference on its ends, length, reverse iteration and an '
                'insert/remove at both ends, and check(fix=True) must leave a '
                'clean cache; '
                'through an LD_PRELOAD shim the kill is also placed before '
                'every write-class system call below the directory, i.e. '
                'inside SQLite\'s commit.',
                note='kills land on shim-level event boundaries; instants '
                'inside one SQLite call are left to SQLite\'s own recovery; '
                'process death, not power loss', ref='§3 C07'),
    'C08': dict(engine='FAULT+SEQ+SCHED', tech='exhaustive single-fault '
                'enumeration over every event of every operation + BFS + all '
                'interleavings, judged by an independent bookkeeping audit',
                text='For 37 (operation, initial state) cases and 4 '
                'unencodable-value cases a failure is injected at every '
                'database statement and file operation in turn; a BFS covers '
                'a full-API alphabet incl. committing and aborting blocks; '
                'the end state of every interleaving of file-handling '
                'operation pairs is audited: len = rows, size = sum of file '
                'sizes, every referenced file exists with its size, no '
                'unreferenced file, check() silent; writes with a key '
                'that cannot be encoded and a file-backed value leave '
                'nothing behind.',
                note='a fault injected into a file removal leaves a file the '
                'library cannot delete (waived for that fault only); failing '
                'COMMIT/ROLLBACK not modelled', ref='§3 C08'),
    'C13': dict(engine='SEQ+GRID', tech='explicit-state BFS of FanoutCache '
                'against the single-cache reference + bounded-exhaustive '
                'routing enumeration across fresh interpreters and recorded '
                'routing',
                text='The C03 slices run on FanoutCache for shard counts '
                '1,2,3,8,13 (aggregates as multisets, every stored key in the '
                'shard it routes to); every key of the key alphabet x '
                'protocols is hashed in three fresh interpreters '
                '(PYTHONHASHSEED 0/1/random) and compared with routing '
                'recorded from the pinned commit; data written by another '
                'interpreter is found; numerically equal keys are compared '
                'for every shard count 1..16; routing asked of one long-lived '
                'FanoutCache after it has seen the other keys; size_limit '
                'division; JSONDisk-equal keys vs an unsharded JSONDisk '
                'cache; a setting changed through one handle and reloaded '
                'through another takes effect in every shard.',
                note='', ref='§3 C13'),
    'C14': dict(engine='FAULT', tech='exhaustive enumeration of lock-'
                'contention scenarios per operation against an '
                'unchanged-state oracle',
                text='For every data operation of Cache, FanoutCache, '
                'DjangoCache, Deque and Index (inline and file-backed values, '
                'retry on/off, statistics/LRU settings): the write lock is '
                'held by another connection before the call, taken at every '
                'event position of the call, or released before BEGIN attempt '
                '1 or 2; Cache must raise Timeout (bulk: Timeout(n) with n = '
                'items removed) and change nothing, retrying calls must wait '
                'and then give the uncontended result and state, sharded '
                'caches must report through their return value, lock-free '
                'lookups must keep working; sharded bulk removals are also '
                'run against a shard that stays busy for > 60 virtual '
                'seconds, as is every retrying call (it must still wait '
                'and succeed); SCHED: a write whose busy answer is '
                'delivered as Timeout while another client (own or shared '
                'object) runs a block must be explainable as not having '
                'happened.',
                note='contender = second SQLite connection in the same '
                'thread, busy timeout 0', ref='§3 C14'),
    'C16': dict(engine='GRID+SEQ', tech='bounded-exhaustive enumeration of '
                'call signatures grouped by stored key + explicit-state BFS '
                'over call histories',
                text='12691 call signatures per configuration (<= 3 '
                'positional, <= 2 keyword arguments over None/1/1.0/a/b/True) '
                'x typed x 6 ignore sets x name given/derived are grouped by '
                'the stored key: a group may only hold one call; same-named '
                'functions in different scopes get different keys; call '
                'histories through Cache/FanoutCache/Index/DjangoCache.'
                'memoize and memoize_stampede return what the function '
                'returns, hit within expiry, store nothing at expiry 0; one '
                'decorator object applied to several functions keeps them '
                'apart.',
                note='memoize_stampede recompute thread run inline', ref='§3 C16'),
    'C17': dict(engine='GRID', tech='bounded-exhaustive enumeration of '
                'damage combinations with a repair-convergence oracle',
                text='Every compatible subset (size <= 3, <= 4 thorough) of 20 '
                'out-of-band damage instances on Cache, each shard of a '
                'FanoutCache, a relatively-addressed cache and a cache with '
                '151 file-backed items: plain check() reports every damage '
                'and changes nothing, check(fix=True) reports no less, a '
                'second check() is silent, remaining items are readable and '
                'undamaged ones untouched; plain check() against a concurrent '
                'writer (all schedules) may only report in-flight value '
                'files; SQLite journal modes other than WAL report nothing '
                'on an undamaged cache; a damaged shard locked by another '
                'client is reported or the check fails.',
                note='', ref='§3 C17'),
    'C18': dict(engine='SEQ+GRID', tech='explicit-state BFS with handle '
                'events + bounded-exhaustive settings grid + replay of a '
                'golden directory written by the pinned release',
                text='Histories interleaving data operations with reopen, '
                'second handle, pickle round trip, close-then-use and '
                'operations run in a forked child or another thread (Cache, '
                'FanoutCache) must match the reference and keep the creation '
                'settings; each value of each setting survives reopening and '
                'unpickling (Cache, FanoutCache, JSONDisk); every item of the '
                'golden v5.6.3 directories (Cache, queue, FanoutCache with '
                'recorded shards, Deque, Index, JSONDisk) is read through '
                'every accessor; two handles resetting one setting in '
                'turn agree on the last value; rows keyed with the JSONDisk '
                'key encodings recorded from the pinned commit are found; '
                'creating a bounded Deque handle never removes items.',
                note='Disk class is an argument, not a stored setting',
                ref='§3 C18'),
})

ENGINES = [
    ('FAULT', 'mc/fault.py', 'deviation-bounded environment answers: the '
     'n-th statement / file operation fails, or a contended BEGIN times out, '
     'for every n'),
    ('CRASH', 'mc/crash.py', 'real SIGKILL of a forked worker before every '
     'shim-level event, recovery by surviving and fresh handles'),
    ('SEQ', 'mc/seq.py', 'explicit-state BFS over API histories executed on '
     'the real library, reference-model oracle, canonical-state dedup'),
    ('GRID', 'mc/props/c01.py', 'bounded-exhaustive product of input/config '
     'alphabets executed on the real library'),
    ('SCHED', 'mc/sched.py', 'controlled scheduler: real threads, one baton, '
     'scheduling point before every SQL statement / file operation, DFS by '
     're-execution with visited-state cache, preemption bound, POR'),
]

NOT_YET = {
}


def main():
    props = [json.loads(l) for l in open(os.path.join(HERE, 'properties.jsonl'))]
    ids = [p['id'] for p in props]
    checks = []
    for pid in ids:
        c = CHECKS.get(pid)
        if c is None:
            continue
        checks.append({
            'property_id': pid,
            'quick_cmd': './check %s quick' % pid,
            'thorough_cmd': './check %s thorough' % pid,
            'evidence_file': 'evidence/%s.json' % pid,
            'replay_cmd_template': './check replay {path}',
            'engine': c['engine'],
            'level_claimed': {'category': c.get('level', MC),
                              'text': c['text'],
                              'design_ref': 'DESIGN.md ' + c['ref']},
            'level_note': TRUST + c['note'],
            'technique': c['tech'],
        })
    na = [{'property_id': pid,
           'reason': NOT_YET.get(pid, 'check under construction in this '
                                 'session: not claimed until its driver is '
                                 'committed')}
          for pid in ids if pid not in CHECKS]
    manifest = {
        'version': 1,
        'setup_cmd': 'cd /verif && ./setup.sh',
        'hooks': {
            'guard': 'DISKCACHE_VERIF',
            'enable': 'none needed: every seam is owned from outside by '
                      'patching stdlib entry points before diskcache is '
                      'imported from /repo (mc/env.py); the guard name is '
                      'reserved and unused',
            'baseline_off_cmd': 'cd /repo && /venv/bin/python -m pytest -ra -q'
                                ' -p no:cacheprovider --timeout=900 '
                                '--continue-on-collection-errors',
            'source_commits': [],
            'add_only': True,
        },
        'engines': [
            {'name': n, 'path': p, 'kind_free_text': k,
             'serves_properties': [pid for pid in ids if pid in CHECKS
                                   and n in CHECKS[pid]['engine']]}
            for n, p, k in ENGINES],
        'checks': checks,
        'not_applicable': na,
        'notes': 'All checks import diskcache from /repo\'s working tree in a '
                 'fresh interpreter. Findings: known_findings.json. Seeded '
                 'mutants: seeded/.',
    }
    with open(os.path.join(HERE, 'MANIFEST.json'), 'w') as f:
        json.dump(manifest, f, indent=1)
    try:
        import jsonschema
        schema = json.load(open('/root/.vp/MANIFEST.schema.json'))
        jsonschema.validate(manifest, schema)
        print('MANIFEST.json valid: %d checks, %d not claimed'
              % (len(checks), len(na)))
    except ImportError:
        print('jsonschema not available; wrote MANIFEST.json unvalidated')


if __name__ == '__main__':
    main()
