#!/usr/bin/env python3
"""Negative controls: behaviour-preserving changes (refactors written by
independent sub-agents, kept in benign/<name>.diff) are applied in a scratch
worktree of /repo and every registered check is run against them.  Every
check must stay silent; the table goes to benign/RESULTS.md.

usage: tools/benign.py [name-substring ...]   (default: the combined diffs,
i.e. names without a -<k> suffix)"""
import json
import os
import re
import subprocess
import sys

VERIF = os.path.dirname(os.path.dirname(os.path.abspath(__file__)))
BENIGN = os.path.join(VERIF, 'benign')
PROPS = ['C%02d' % i for i in range(1, 21)]


def run_one(name, props):
    wt = '/tmp/wt/bn-%s' % name
    out = '/dev/shm/verif-benign/%s' % name
    subprocess.run(['git', '-C', '/repo', 'worktree', 'remove', '--force', wt],
                   capture_output=True)
    subprocess.run(['git', '-C', '/repo', 'worktree', 'add', '-q', '--detach',
                    wt, 'HEAD'], check=True, capture_output=True)
    res = {}
    try:
        r = subprocess.run(['git', '-C', wt, 'apply',
                            os.path.join(BENIGN, name + '.diff')],
                           capture_output=True, text=True)
        if r.returncode != 0:
            return {'error': 'does not apply: ' + r.stderr[:200]}
        for p in props:
            env = dict(os.environ, VERIF_REPO=wt, VERIF_OUT=out,
                       PYTHONHASHSEED='0')
            r = subprocess.run([os.path.join(VERIF, 'check'), p, 'quick'],
                               env=env, capture_output=True, text=True,
                               timeout=7200)
            first = ''
            lines = r.stdout.splitlines()
            for i, l in enumerate(lines):
                if l.startswith('VIOLATION'):
                    first = (lines[i + 1].strip() if i + 1 < len(lines)
                             else '')[:300]
                    break
            if r.returncode not in (0, 1):
                first = (r.stdout + r.stderr)[-300:]
            res[p] = {'exit': r.returncode, 'first': first}
            print(name, p, r.returncode, first[:200], flush=True)
    finally:
        subprocess.run(['git', '-C', '/repo', 'worktree', 'remove', '--force',
                        wt], capture_output=True)
    return res


def main():
    names = sorted(f[:-5] for f in os.listdir(BENIGN) if f.endswith('.diff'))
    args = [a for a in sys.argv[1:] if not re.fullmatch(r'C\d\d', a)]
    props = [a for a in sys.argv[1:] if re.fullmatch(r'C\d\d', a)] or PROPS
    if args:
        names = [n for n in names if n in args]
    else:
        names = [n for n in names if not re.search(r'-\d+$', n)]
    path = os.path.join(BENIGN, 'results.json')
    results = json.load(open(path)) if os.path.exists(path) else {}
    for n in names:
        results.setdefault(n, {}).update(run_one(n, props))
    json.dump(results, open(path, 'w'), indent=1, sort_keys=True)
    with open(os.path.join(BENIGN, 'RESULTS.md'), 'w') as f:
        f.write('# Behaviour-preserving changes vs checks (quick tier)\n\n'
                'Every cell must be 0 (silent).\n\n| change | alarms | '
                'checks run |\n|---|---|---|\n')
        for n in sorted(results):
            r = results[n]
            if 'error' in r:
                f.write('| %s | %s | |\n' % (n, r['error']))
                continue
            alarms = [p for p in sorted(r) if r[p]['exit'] != 0]
            f.write('| %s | %s | %d |\n' % (n, ', '.join(alarms) or 'none',
                                             len(r)))
    bad = [(n, p) for n in names for p, v in results[n].items()
           if isinstance(v, dict) and v.get('exit') != 0]
    print('ALARMS:', bad)


if __name__ == '__main__':
    main()
