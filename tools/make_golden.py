#!/usr/bin/env python3
"""Write the reference directories of the released on-disk format.

Run ONCE with the pinned commit on sys.path:
    PYTHONPATH=<worktree of 5a4f96f> /venv/bin/python tools/make_golden.py
"""
import base64
import json
import os
import pickle
import shutil
import sys

import diskcache as dc

HERE = os.path.dirname(os.path.dirname(os.path.abspath(__file__)))
OUT = os.path.join(HERE, 'golden', 'v5.6.3')

KEYS = ['text', '', 'k\xe9y', b'bytes', b'', 0, 1, -1, 2 ** 40, 2 ** 63 - 1,
        -2 ** 63, 2 ** 64, -1.5, 2.5, 1e300, None, True, False,
        ('tuple', 1), (1, (2, 3)), frozenset([7]), 4294967295, 4294967296,
        -12345, 'queue-like-500000000000000']
VALUES = [0, -7, 2 ** 62, 2 ** 70, 1.25, -0.0, float('inf'), 'short', '',
          'long-text-\xe9-' + 't' * 30, b'raw', b'', b'binary-' + b'b' * 30,
          None, True, ('pickled', 1), {'d': [1, 2, {'x': None}]},
          ['long-pickle'] + list(range(30))]


def enc(x):
    return base64.b64encode(pickle.dumps(x, protocol=2)).decode()


def main():
    assert dc.__version__ == '5.6.3', dc.__version__
    shutil.rmtree(OUT, ignore_errors=True)
    os.makedirs(OUT)
    manifest = {'version': dc.__version__, 'cache': [], 'fanout': [],
                'deque': [], 'index': [], 'json': [], 'queue': []}
    # --- Cache: every key and value representation -----------------------
    c = dc.Cache(os.path.join(OUT, 'cache'), disk_min_file_size=16,
                 statistics=1, tag_index=1, cull_limit=0,
                 eviction_policy='least-recently-used', size_limit=10 ** 7)
    for i, k in enumerate(KEYS):
        v = VALUES[i % len(VALUES)]
        c.set(k, v, tag='t%d' % (i % 3) if i % 2 else None,
              expire=None if i % 4 else 10 ** 9)
        manifest['cache'].append([enc(k), enc(v)])
    for j, v in enumerate(VALUES):
        k = 'value-%02d' % j
        c.set(k, v)
        manifest['cache'].append([enc(k), enc(v)])
    for v in ('first', b'second-' + b's' * 20, ('third',)):
        key = c.push(v, prefix='q')
        manifest['queue'].append([enc(key), enc(v)])
    manifest['cache_settings'] = {
        k: getattr(c, k) for k in ('statistics', 'tag_index', 'cull_limit',
                                   'eviction_policy', 'size_limit',
                                   'disk_min_file_size',
                                   'disk_pickle_protocol')}
    c.close()
    # --- FanoutCache, 2 shards ---------------------------------------------
    f = dc.FanoutCache(os.path.join(OUT, 'fanout'), shards=2,
                       disk_min_file_size=16)
    for i, k in enumerate(KEYS):
        v = VALUES[(i * 5) % len(VALUES)]
        f.set(k, v)
        shard = f._hash(k) % 2
        manifest['fanout'].append([enc(k), enc(v), shard])
    f.close()
    # --- Deque and Index -------------------------------------------------------
    dc.Cache(os.path.join(OUT, 'deque'), disk_min_file_size=16,
             eviction_policy='none').close()
    d = dc.Deque(directory=os.path.join(OUT, 'deque'))
    d.extend(VALUES[:8])
    d.appendleft('left')
    manifest['deque'] = [enc(x) for x in d]
    d.cache.close()
    dc.Cache(os.path.join(OUT, 'index'), disk_min_file_size=16,
             eviction_policy='none').close()
    ix = dc.Index(os.path.join(OUT, 'index'))
    for i, k in enumerate(KEYS[:10]):
        ix[k] = VALUES[(i * 3) % len(VALUES)]
    manifest['index'] = [[enc(k), enc(v)] for k, v in ix.items()]
    ix.cache.close()
    # --- JSONDisk -----------------------------------------------------------------
    j = dc.Cache(os.path.join(OUT, 'json'), disk=dc.JSONDisk,
                 disk_compress_level=6, disk_min_file_size=16)
    for k, v in (('a', 1), ('b', [1, 'x', None]), (3, {'n': 2.5}),
                 ('big', 'j' * 200), ('list-key', ['v'])):
        j.set(k, v)
        manifest['json'].append([enc(k), enc(v)])
    j.close()
    with open(os.path.join(OUT, 'manifest.json'), 'w') as fh:
        json.dump(manifest, fh, indent=0, sort_keys=True)
    for root, dirs, files in os.walk(OUT):
        for name in files:
            if name.endswith(('-wal', '-shm')):
                os.remove(os.path.join(root, name))
    print('golden directory written to', OUT)


if __name__ == '__main__':
    main()
