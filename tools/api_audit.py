#!/usr/bin/env python3
"""Which functions of the library do the registered quick checks execute?
Runs every check with VERIF_COVER set (a sys.setprofile hook in the workers
records every diskcache function entered) and lists the functions defined in
/repo/diskcache/*.py that were never entered.  An audit aid, not a check."""
import ast
import glob
import json
import os
import subprocess
import sys

VERIF = os.path.dirname(os.path.dirname(os.path.abspath(__file__)))
REPO = os.environ.get('VERIF_REPO', '/repo')
out = '/dev/shm/verif-cover'
props = sys.argv[1:] or ['C%02d' % i for i in range(1, 21)]
subprocess.run(['rm', '-rf', out])
for p in props:
    env = dict(os.environ, VERIF_COVER=out + '/' + p,
               VERIF_OUT='/dev/shm/verif-cover-out', PYTHONHASHSEED='0')
    r = subprocess.run([os.path.join(VERIF, 'check'), p, 'quick'], env=env,
                       capture_output=True, text=True)
    print(p, 'exit', r.returncode, flush=True)
seen = {}
for f in glob.glob(out + '/*/cover-*.json'):
    prop = f.split('/')[-2]
    for name, fn, line in json.load(open(f)):
        seen.setdefault((name, fn, line), set()).add(prop)
missing = []
for path in sorted(glob.glob(REPO + '/diskcache/*.py')):
    base = os.path.basename(path)
    tree = ast.parse(open(path).read())
    for node in ast.walk(tree):
        if isinstance(node, (ast.FunctionDef, ast.AsyncFunctionDef)):
            line = node.decorator_list[0].lineno if node.decorator_list \
                else node.lineno
            hit = [k for k in seen if k[0] == base and k[1] == node.name
                   and abs(k[2] - line) <= len(node.decorator_list) + 1]
            if not hit:
                missing.append('%s:%d %s' % (base, node.lineno, node.name))
print('functions never entered by any quick check: %d' % len(missing))
for m in missing:
    print('  ', m)
with open(os.path.join(VERIF, 'benign', 'API_AUDIT.txt'), 'w') as f:
    f.write('library functions never entered by any quick check (%d):\n'
            % len(missing))
    f.write('\n'.join(missing) + '\n')
