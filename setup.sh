#!/bin/sh
# Offline setup: nothing to download; optional C helper for syscall-level kills.
set -e
cd "$(dirname "$0")"
mkdir -p build evidence replays
if [ -f mc/killshim.c ]; then
  gcc -O1 -shared -fPIC -o build/killshim.so mc/killshim.c -ldl
fi
/venv/bin/python -c "import sqlite3, sys; sys.path.insert(0, '/repo'); import diskcache; print('diskcache', diskcache.__version__, 'sqlite', sqlite3.sqlite_version)"
